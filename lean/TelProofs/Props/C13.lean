/-
C13 — body temporal formulas are pure observers of the trace.

What the translation adds for a body formula is a *definitional extension*: one literal per (formula, step)
constrained by the one-step equations.  For every trace, horizon and set of formulas being translated,
  * `formula_exists`   the equations have a solution (the semantics): mentioning a formula cannot destroy an
                       answer set;
  * `formula_definite` any two solutions agree: it cannot duplicate one, and the formula has a definite truth
                       value in every answer set — hence `:- &tel{f}` and `:- not &tel{f}` split the answer sets
                       into two disjoint classes that together are all of them (`constraint_split`).
For `&del` under normal form: `del_definite`.
At the level of stable models (`observer_cut`, `observer_conservative`, generic over the atom type, TelProofs/Meta/DefExt.lean):
if what is added to a ground program `P` consists only of choice rules on fresh atoms, integrity constraints and rules
without positive body that define fresh atoms (`w :- not not t.`), then every stable model of the extended program cut
to the old atoms is a stable model of `P`; and if the added constraints hold exactly when every fresh atom has the value
a function of the old atoms gives it (for telingo: the value of the formula it stands for — the statements above), the
cut is a bijection: nothing is created, destroyed or duplicated.
For the clause groups the code really writes the two hypotheses are derived from the clause model (TelModel/Clauses.lean,
tied to the code literal for literal by the clause correspondence): a Boolean connective, a temporal induction step and an
equivalence are *clause definitions* (`bool_group_defines`, `tel_group_defines`, `eq_group_defines`), and every chain of
clause definitions — each fresh atom new to the program and to the definitions before it, later ones free to use earlier
ones, as the literals of sub-formulas are used by their super-formulas — is a conservative extension
(`definition_chain_conservative`).
The placeholder of a `>` whose target lies beyond the horizon is, in the program of one solve call, an external with a
fixed truth value — a fact (weak) or nothing (strong): also a clause definition (`placeholder_defines`); in the solve call
that reaches the target it is a free atom with the clauses of `make_equal` (`eq_group_defines`).
PARTIAL: that clingo's multi-shot state after `add_external(…, Free)` / `release_external` is this per-call program is the
solver's contract; it is checked on the implementation: (H1) the recorded backend statements of every run with body
formulas have exactly the admitted shapes (tools/impl_theory.backend_shape), (H2) in every answer set the recorded literal
values solve the equations (L4).
-/
import TelProofs.SemSys
import TelProofs.DelUnique
import TelProofs.Meta.DefExt
import TelProofs.ClauseDefExt
import TelProofs.ClauseChain

namespace TelProofs.C13
open TelSpec TelModel TelProofs

/-- a solution exists, for every temporal formula at every state of every trace and horizon -/
theorem formula_exists (h : Nat) (tr : Trace) (lv : Int → Bool) :
    ∃ v : BForm → Nat → Bool, Sys h tr lv v (fun f k => isTel f = true ∧ k ≤ h) :=
  ⟨_, sem_sys h tr lv⟩

/-- … and it is unique -/
theorem formula_definite {h : Nat} {tr : Trace} {lv : Int → Bool} {v v' : BForm → Nat → Bool}
    {S : BForm → Nat → Prop} (s1 : Sys h tr lv v S) (s2 : Sys h tr lv v' S) (f : BForm) (ht : isTel f = true)
    (k : Nat) (hS : S f k) : v f k = v' f k := by
  rw [tel_unique s1 f ht k hS, tel_unique s2 f ht k hS]

theorem del_definite {h : Nat} {tr : Trace} {lv : Int → Bool} {v v' : BForm → Nat → Bool}
    {S : BForm → Nat → Prop} (s1 : Sys h tr lv v S) (s2 : Sys h tr lv v' S) (f : BForm) (hd : isDel f = true)
    (k : Nat) (hS : S f k) : v f k = v' f k := by
  rw [del_unique s1 f hd k hS, del_unique s2 f hd k hS]

/-- the two constraints partition: in every solution the formula literal is true or false, never both,
    and which one is decided by the trace alone -/
theorem constraint_split {h : Nat} {tr : Trace} {lv : Int → Bool} {v : BForm → Nat → Bool}
    {S : BForm → Nat → Prop} (s : Sys h tr lv v S) (f : BForm) (ht : isTel f = true) (k : Nat) (hS : S f k) :
    (v f k = true ∧ f.sem h tr lv k = true) ∨ (v f k = false ∧ f.sem h tr lv k = false) := by
  rw [tel_unique s f ht k hS]
  cases f.sem h tr lv k <;> simp

/-- cutting: whatever the fresh atoms are constrained to, no answer set of the old program is invented -/
theorem observer_cut {α : Type} (P E : List (DefExt.Rule α)) (N : α → Bool)
    (hP : ∀ r ∈ P, ∀ a ∈ r.atoms, N a = false) (hE : ∀ r ∈ E, DefExt.EShape N r)
    (X : DefExt.Interp α) (hs : DefExt.Stable (P ++ E) X) : DefExt.Stable P (DefExt.cut N X) :=
  DefExt.cut_stable P E N hP hE X hs

/-- **C13 at the level of stable models**: a definitional extension whose fresh atoms are functions of the old atoms
    neither creates, nor destroys, nor duplicates answer sets -/
theorem observer_conservative {α : Type} [DecidableEq α] (P E : List (DefExt.Rule α)) (N : α → Bool)
    (hP : ∀ r ∈ P, ∀ a ∈ r.atoms, N a = false) (hE : ∀ r ∈ E, DefExt.EShape N r)
    (val : DefExt.Interp α → α → Bool)
    (hval : ∀ Y Y' : DefExt.Interp α, (∀ a, N a = false → Y a = Y' a) → ∀ n, val Y n = val Y' n)
    (hsat : ∀ Y : DefExt.Interp α, (∀ r ∈ E, r.sat Y Y = true) ↔ ∀ n, N n = true → Y n = val Y n)
    (hfree : ∀ n, N n = true → ∃ r ∈ E, n ∈ r.head ∧ r.pos = [] ∧ r.neg = [] ∧ r.nneg = []) :
    (∀ X, DefExt.Stable (P ++ E) X → DefExt.Stable P (DefExt.cut N X)) ∧
    (∀ X0, DefExt.Stable P X0 → ∃ X, DefExt.Stable (P ++ E) X ∧ (∀ a, N a = false → X a = X0 a)) ∧
    (∀ X X', DefExt.Stable (P ++ E) X → DefExt.Stable (P ++ E) X' → (∀ a, N a = false → X a = X' a) → ∀ a, X a = X' a) :=
  DefExt.conservative P E N hP hE (DefExt.det_of_function P E N hP hE val hval hsat hfree)

/-- a worked instance with the clauses the code really writes: the literal of one Boolean connective over two program
    atoms (`BooleanFormula.do_translate`: a choice on a fresh atom and the constraints of `boolClauses`) is a conservative
    extension of any program that does not mention the fresh atom -/
theorem bool_definition_conservative (P : List (DefExt.Rule Nat)) (op : String) (v a b : Nat)
    (hv : 0 < v) (ha : 0 < a) (hb : 0 < b) (hva : v ≠ a) (hvb : v ≠ b)
    (hop : op = "&" ∨ op = "|" ∨ op = "<-" ∨ op = "->" ∨ op = "<>")
    (hP : ∀ r ∈ P, ∀ x ∈ r.atoms, (x == v) = false) :
    (∀ X, DefExt.Stable (P ++ boolDefinition op v a b) X → DefExt.Stable P (DefExt.cut (fun n => n == v) X)) ∧
    (∀ X0, DefExt.Stable P X0 → ∃ X, DefExt.Stable (P ++ boolDefinition op v a b) X ∧ (∀ x, (x == v) = false → X x = X0 x)) ∧
    (∀ X X', DefExt.Stable (P ++ boolDefinition op v a b) X → DefExt.Stable (P ++ boolDefinition op v a b) X' →
      (∀ x, (x == v) = false → X x = X' x) → ∀ x, X x = X' x) :=
  TelProofs.bool_definition_conservative P op v a b hv ha hb hva hvb hop hP

/-! ### non-vacuity (a concrete instance of the hypotheses is proved in TelProofs/Meta/DefExt.lean, `exP` / `exE`) -/
example : isTel (.telN2 false (.atom "a" [] true) (.bin "&" (.prev (.atom "b" [] true) 2 true) (.neg (.const false)))) = true := rfl

/-- **chains of Tseitin definitions are conservative**: for a ground program `P` and definitions `ds` (a choice on a
    fresh atom plus integrity constraints that hold exactly when the atom has a value computed from the other atoms),
    each fresh atom new to `P` and to the definitions before it: cutting to the old atoms maps the stable models of the
    extended program onto the stable models of `P`, every stable model of `P` has an extension, and only one -/
theorem definition_chain_conservative (P : List (DefExt.Rule Nat)) (ds : List ClauseDef)
    (hwf : ∀ d ∈ ds, d.WF) (hP : ∀ d ∈ ds, ∀ r ∈ P, ∀ x ∈ r.atoms, (x == d.v) = false)
    (hnew : ds.Pairwise ClauseDef.NewTo) :
    let N := fun n => ds.any (fun d => n == d.v)
    (∀ X, DefExt.Stable (P ++ chainRules ds) X → DefExt.Stable P (DefExt.cut N X)) ∧
    (∀ X0, DefExt.Stable P X0 → ∃ X, DefExt.Stable (P ++ chainRules ds) X ∧ (∀ a, N a = false → X a = X0 a)) ∧
    (∀ X X', DefExt.Stable (P ++ chainRules ds) X → DefExt.Stable (P ++ chainRules ds) X' →
      (∀ a, N a = false → X a = X' a) → ∀ a, X a = X' a) :=
  chain_conservative ds P hwf hP hnew

/-- the clauses of `BooleanFormula.do_translate` define the literal of `a op b`, for arbitrary operand literals -/
theorem bool_group_defines (op : String) (v : Nat) (a b : Int) (hv : 0 < v) (ha : a ≠ 0) (hb : b ≠ 0)
    (hva : a.natAbs ≠ v) (hvb : b.natAbs ≠ v)
    (hop : op = "&" ∨ op = "|" ∨ op = "<-" ∨ op = "->" ∨ op = "<>") : (boolDef op v a b).WF :=
  boolDef_wf op v a b hv ha hb hva hvb hop

/-- the clauses of `TelFormula._translate` define the literal of one induction step of since/trigger/until/release -/
theorem tel_group_defines (dual : Bool) (v : Nat) (lhs : Option Int) (rhs pre : Int) (hv : 0 < v)
    (hl : ∀ l, lhs = some l → l ≠ 0 ∧ l.natAbs ≠ v) (hr : rhs ≠ 0) (hp : pre ≠ 0)
    (hvr : rhs.natAbs ≠ v) (hvp : pre.natAbs ≠ v) : (telDef dual v lhs rhs pre).WF :=
  telDef_wf dual v lhs rhs pre hv hl hr hp hvr hvp

/-- the clauses of `make_equal` define a (free) theory atom as equivalent to a literal -/
theorem eq_group_defines (v : Nat) (b : Int) (hv : 0 < v) (hb : b ≠ 0) (hvb : b.natAbs ≠ v) : (eqDef v b).WF :=
  eqDef_wf v b hv hb hvb

/-- the placeholder of `>` / `>:` beyond the horizon: an external fixed to the value of the operator at the end of the trace -/
theorem placeholder_defines (v : Nat) (weak : Bool) (hv : 0 < v) : (placeholderDef v weak).WF :=
  placeholderDef_wf v weak hv

/-- non-vacuity: `{a}.` with `v2 := a | not a`, the placeholder `5` of a weak next, `v3 := v2 & 5`, theory atom `4 = v3` -/
example : Conservative [{ head := [1], choice := true }] (chainRules exChain) (fun n => exChain.any (fun d => n == d.v)) :=
  exChain_conservative

end TelProofs.C13
