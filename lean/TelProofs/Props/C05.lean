/-
C05 — `&del` formulas are evaluated with linear dynamic logic on finite traces.

`TelSpec.ldlSem` is LDL_f (`runs` = the relation of a path expression on positions 0..h; diamond =
some run, box = every run).  `createDynamicFormula`/`createPath` transcribe body.py; `eqn` transcribes
the `translate_*Path` methods of DiamondFormula/BoxFormula.  The theorems say: under the documented
normal form the translation's equations have the LDL_f semantics as their only solution.
-/
import TelProofs.DelUnique
import TelProofs.DelDocEq
import TelProofs.DelNecessity

namespace TelProofs.C05
open TelSpec TelModel TelProofs

/-- runs never leave the trace and never go backwards (model paths) -/
theorem runs_within (h : Nat) (tr : Trace) (p : Path) (k j : Nat) (hr : p.runs h tr k j = true) :
    k ≤ j ∧ (k ≤ h → j ≤ h) :=
  ⟨(runs_bounded (h := h) (tr := tr) p).fwd k j hr, (runs_bounded (h := h) (tr := tr) p).inside k j hr⟩

/-- … and the same for specification-level path expressions -/
theorem spec_runs_within (h : Nat) (tr : Trace) (p : DPath) (hg : GoodP p) (k j : Nat)
    (hr : runs h tr p k j = true) : k ≤ j ∧ (k ≤ h → j ≤ h) := by
  rw [← mpath_runs h tr p hg] at hr
  exact runs_within h _ _ k j hr

/-- the code's construction of dynamic formulas has the LDL_f semantics and preserves normal form -/
theorem del_doc_eq (s : DForm) (hg : GoodD s) :
    ∃ f, createDynamicFormula (toTermD s) = .ok f ∧ (s.normal = true → isDel f = true) ∧
      ∀ (h : Nat) (tr : Trace) (lv : Int → Bool) (k : Nat), k ≤ h →
        f.sem h (withAdmin h tr) lv k = ldlSem h tr s k := by
  obtain ⟨f, hc, hn, hs⟩ := TelProofs.del_doc_eq s hg
  exact ⟨f, hc, hn, hs⟩

/-- unique solution of the Diamond/Box equations, any nesting, any horizon -/
theorem del_unique {h : Nat} {tr : Trace} {lv : Int → Bool} {v : BForm → Nat → Bool}
    {S : BForm → Nat → Prop} (sys : Sys h tr lv v S) (f : BForm) (hd : isDel f = true) (k : Nat) (hS : S f k) :
    v f k = f.sem h tr lv k :=
  TelProofs.del_unique sys f hd k hS

/-- For every dynamic formula in normal form, at every horizon, the literal attached to `&del{s}` at
    state `k` has the LDL_f value of `s` at `k`. -/
theorem C05_value (s : DForm) (hg : GoodD s) (hn : s.normal = true) :
    ∃ f, createDynamicFormula (toTermD s) = .ok f ∧
      ∀ (h : Nat) (tr : Trace) (lv : Int → Bool) (v : BForm → Nat → Bool) (S : BForm → Nat → Prop),
        Sys h (withAdmin h tr) lv v S → ∀ k, S f k → v f k = ldlSem h tr s k := by
  obtain ⟨f, hc, hd, hs⟩ := TelProofs.del_doc_eq s hg
  refine ⟨f, hc, ?_⟩
  intro h tr lv v S sys k hS
  rw [TelProofs.del_unique sys f (hd hn) k hS]
  exact hs h tr lv k (sys.bound _ _ hS)

/-- The normal form is needed: for `<(a?)*> b` (iteration over a test) at horizon 1 on the trace `{a},{}` the equations the
    code writes have two solutions, one of them different from the LDL_f value.  The implementation shows exactly this
    (two answer sets for that trace; `excluded_point` in tools/props/c05.py), and the README demands the normal form. -/
theorem normal_form_necessary :
    ∃ (f : BForm) (h : Nat) (t : Trace) (lv : Int → Bool) (w : BForm → Nat → Bool) (T : BForm → Nat → Prop),
      Sys h t lv w T ∧ T f 0 ∧ w f 0 ≠ f.sem h t lv 0 ∧
      (∀ g k, T g k → g.sem h t lv k = (eqn h g k).eval t lv (fun g j => g.sem h t lv j)) :=
  ⟨DelNecessity.F, 1, DelNecessity.tr, fun _ => false, DelNecessity.v, DelNecessity.S, DelNecessity.second_solution,
    by simp [DelNecessity.S], by decide, DelNecessity.first_solution⟩

/-! ### non-vacuity -/

/-- `<(a? ; T)*> b` of the README is in normal form and meets the hypotheses -/
example : GoodD (.dia (.star (.seq (.test (.atom "a")) .skip)) (.atom "b")) ∧
    (DForm.dia (.star (.seq (.test (.atom "a")) .skip)) (.atom "b")).normal = true := by
  refine ⟨?_, rfl⟩
  simp [GoodD, GoodP, GoodT, GoodAtom]; decide

/-- iteration over a test alone is not in normal form -/
example : (DForm.dia (.star (.test (.atom "a"))) (.atom "b")).normal = false := rfl

/-- on the trace a,a,b the formula holds at 0, and `&final` holds exactly at the last state -/
example : ldlSem 2 (fun k x => (k < 2 && x == "a") || (k == 2 && x == "b"))
    (.dia (.star (.seq (.test (.atom "a")) .skip)) (.atom "b")) 0 = true := by rfl

end TelProofs.C05
