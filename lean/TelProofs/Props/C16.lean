/-
C16 — documented abbreviations and dualities of the language hold in every context.

Each law is an equivalence of the specification semantics: `Eqv` (every world of every THT
interpretation — valid in heads and bodies) or `EqvT` (total traces — bodies).  `subst_congr` /
`subst_congrT` lift a law to every sub-formula position of every context.  `code_level` transports the
result to the formulas the code builds (through `doc_eq_sem`), whose literals have these values by C03.
-/
import TelProofs.Laws

namespace TelProofs.C16
open TelSpec TelModel TelProofs

theorem law_false (h) : Eqv h (.kw .kfalse) (.neg (.kw .ktrue)) := false_eq h
theorem law_initial (h) : Eqv h (.kw .kinitial) (.neg (.prev 1 false (.kw .ktrue))) := initial_eq h
theorem law_final (h) : Eqv h (.kw .kfinal) (.neg (.next 1 false (.kw .ktrue))) := final_eq h
theorem law_initially (h p) : Eqv h (.initially p) (.alP (.bin .or (.neg (.kw .kinitial)) p)) := initially_eq h p
theorem law_finally (h p) : Eqv h (.finally_ p) (.alF (.bin .or (.neg (.kw .kfinal)) p)) := finally_eq h p
theorem law_seq_next (h w a b) : Eqv h (.seqNext w a b) (.bin .and a (.next 1 w b)) := seqNext_eq h w a b
theorem law_seq_prev (h w a b) : Eqv h (.seqPrev w a b) (.bin .and (.prev 1 w a) b) := seqPrev_eq h w a b
theorem law_next_zero (h w p) : Eqv h (.next 0 w p) p := next_zero h w p
theorem law_prev_zero (h w p) : Eqv h (.prev 0 w p) p := prev_zero h w p
theorem law_next_nested (h n w p) : Eqv h (.next (n+1) w p) (.next 1 w (.next n w p)) := next_succ h n w p
theorem law_prev_nested (h n w p) : Eqv h (.prev (n+1) w p) (.prev 1 w (.prev n w p)) := prev_succ h n w p
theorem law_next_add (h m n w p) : Eqv h (.next m w (.next n w p)) (.next (m + n) w p) := next_add h m n w p
theorem law_prev_add (h m n w p) : Eqv h (.prev m w (.prev n w p)) (.prev (m + n) w p) := prev_add h m n w p
/-- the n-fold abbreviation is for operators of one strength only: `> >: p` is not `2 > p`, `< <: p` is not `2 < p` -/
theorem no_law_mixed_next : ¬ EqvT 1 (.next 1 false (.next 1 true (.atom "p"))) (.next 2 false (.atom "p")) := next_mixed_not_add
theorem no_law_mixed_prev : ¬ EqvT 1 (.prev 1 false (.prev 1 true (.atom "p"))) (.prev 2 false (.atom "p")) := prev_mixed_not_add
theorem law_eventually (h p) : Eqv h (.evF p) (.unt (.kw .ktrue) p) := evF_eq h p
theorem law_always (h p) : Eqv h (.alF p) (.rel (.kw .kfalse) p) := alF_eq h p
theorem law_eventually_past (h p) : Eqv h (.evP p) (.since (.kw .ktrue) p) := evP_eq h p
theorem law_always_past (h p) : Eqv h (.alP p) (.trigger (.kw .kfalse) p) := alP_eq h p
theorem dual_weak_next (h p) : EqvT h (.next 1 true p) (.neg (.next 1 false (.neg p))) := weak_next_dual h p
theorem dual_release (h a b) : EqvT h (.rel a b) (.neg (.unt (.neg a) (.neg b))) := release_dual h a b
theorem dual_trigger (h a b) : EqvT h (.trigger a b) (.neg (.since (.neg a) (.neg b))) := trigger_dual h a b

/-- past/future mirror symmetry on reversed traces -/
theorem mirror_symmetry (h : Nat) (f : SForm) (tr : Trace) (k : Nat) (hk : k ≤ h) :
    docSem h tr f k = docSem h (revTrace h tr) (mirror f) (h - k) := mirror_sym h f tr k hk

/-- every context, heads and bodies -/
theorem in_every_context (h : Nat) (x : String) (f g : SForm) (e : Eqv h f g) (C : SForm) :
    Eqv h (substA x f C) (substA x g C) := subst_congr h x f g e C

/-- every body context, for the classical dualities -/
theorem in_every_body_context (h : Nat) (x : String) (f g : SForm) (e : EqvT h f g) (C : SForm) :
    EqvT h (substA x f C) (substA x g C) := subst_congrT h x f g e C

/-- transported to the code: the two formulas `create_formula` builds for `C[f]` and `C[g]` have the same
    value at every state of every trace at every horizon -/
theorem code_level (x : String) (f g C : SForm) (e : ∀ h, EqvT h f g)
    (hg1 : GoodAtoms (substA x f C)) (hg2 : GoodAtoms (substA x g C)) :
    ∃ f1 f2, createFormula (toTerm (substA x f C)) = .ok f1 ∧ createFormula (toTerm (substA x g C)) = .ok f2 ∧
      ∀ (h : Nat) (tr : Trace) (lv : Int → Bool) (k : Nat), k ≤ h →
        f1.sem h (withAdmin h tr) lv k = f2.sem h (withAdmin h tr) lv k := by
  obtain ⟨f1, hc1, _, hs1⟩ := TelProofs.doc_eq_sem _ hg1
  obtain ⟨f2, hc2, _, hs2⟩ := TelProofs.doc_eq_sem _ hg2
  refine ⟨f1, f2, hc1, hc2, ?_⟩
  intro h tr lv k hk
  rw [hs1 h tr lv k hk, hs2 h tr lv k hk]
  exact subst_congrT h x f g (e h) C tr k hk

/-! ### non-vacuity -/
example : substA "x" (.finally_ (.atom "p")) (.since (.atom "x") (.neg (.atom "x"))) =
    .since (.finally_ (.atom "p")) (.neg (.finally_ (.atom "p"))) := by decide

end TelProofs.C16
