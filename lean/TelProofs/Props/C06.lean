/-
C06 — non-ground programs mean the same as their ground instances.

telingo's own part in this is small and is what is modelled: the time argument is appended by predicate *name*
only (`TermTransformer`, transformers/term.py, modelled by `addTime` on predicate / classical negation / pool terms and
compared with the real class on random terms); the ground elements of a theory atom, with their conditions, are folded
into one formula; symbols inside theory atoms are converted back by `create_symbol`; the numeric time ranges of a
head-formula atom are merged by `IntervalSet`.  Proved:
  * `time_arg_uniform`              adding the time parameter commutes with pool expansion and classical negation: every
                                    instance of the atom term gets the parameters its own predicate name asks for, and the
                                    bookkeeping is what handling the instances one by one gives
  * `max_shift_is_max` / `future_sign_recorded`  `max_shift` ends as the maximum look-ahead over all instances that are
                                    not replaced; every replaced instance is recorded as a future predicate with its own sign
  * `symbol_roundtrip`              `create_symbol` applied to the theory term by which clingo presents a ground symbol
                                    (numbers, strings, `#inf`/`#sup`, function symbols, tuples, classical negation, any nesting)
                                    gives that symbol back
  * `elements_sem` / `element_sem`  the formula of `&tel{ f(X) : c(X) }` after grounding is the conjunction over the
                                    ground elements of `c(x) -> f(x)`, for any number of elements in any order
  * `interval_add` / `interval_addAll`  `IntervalSet.add` keeps the sorted-disjoint invariant and the set of time
                                    points is exactly the union of the added ranges — so the domain rule built from
                                    the merged ranges of a schema covers what the ranges of each instance cover
PARTIAL: that clingo's grounder computes the instances is the grounder's contract; `transform_subst` (the rewriting
commutes with substitution on the full statement AST — conditions, aggregates, theory atoms) is not proved; it is covered
by the search: schema vs its own textual instantiation over a finite domain (variables, pools, intervals, arithmetic,
comparisons, conditions, aggregates, n-fold prefixes given by variables, #show/#external), equal answer sets.
-/
import TelProofs.ElementsSem
import TelProofs.IntervalProofs
import TelModel.Reject
import TelProofs.TimeArgProofs
import TelProofs.SymRoundTrip

namespace TelProofs.C06
open TelSpec TelModel TelProofs

theorem elements_sem (h : Nat) (tr : Trace) (lv : Int → Bool) (k : Nat) (els : List TElem) (dyn : Bool) (f : BForm)
    (hf : translateElements els dyn = .ok f) :
    ∃ ws, els.mapM (fun e => elemFormula e dyn) = .ok ws ∧ f.sem h tr lv k = ws.all fun w => w.sem h tr lv k :=
  TelProofs.elements_sem h tr lv k els dyn f hf

theorem element_sem (h : Nat) (tr : Trace) (lv : Int → Bool) (k : Nat) (e : TElem) (dyn : Bool) (f w : BForm)
    (hf : (if dyn then createDynamicFormula e.term else createFormula e.term) = .ok f)
    (hw : elemFormula e dyn = .ok w) : w.sem h tr lv k = (!(e.cond.all lv) || f.sem h tr lv k) :=
  TelProofs.element_sem h tr lv k e dyn f w hf hw

theorem interval_add (s : List Ival) (y : Ival) (hs : IvSorted s) :
    IvSorted (IntervalSet.add s y) ∧
    ∀ x, IntervalSet.memPoint (IntervalSet.add s y) x = (IntervalSet.memPoint s x || Ival.mem x y) :=
  add_spec s y hs

/-- adding any sequence of ranges: invariant kept, members = union of the ranges -/
theorem interval_addAll (ys : List Ival) : ∀ (s : List Ival), IvSorted s →
    IvSorted (ys.foldl IntervalSet.add s) ∧
    ∀ x, IntervalSet.memPoint (ys.foldl IntervalSet.add s) x = (IntervalSet.memPoint s x || ys.any (Ival.mem x)) := by
  induction ys with
  | nil => intro s hs; exact ⟨hs, fun x => by simp⟩
  | cons y ys ih =>
    intro s hs
    obtain ⟨h1, h2⟩ := add_spec s y hs
    obtain ⟨i1, i2⟩ := ih _ h1
    refine ⟨i1, fun x => ?_⟩
    simp only [List.foldl_cons, i2 x, h2 x, List.any_cons, Bool.or_assoc]

/-- the time parameter is added uniformly -/
theorem time_arg_uniform (rf ff fp : Bool) (t : ATerm) (pos : Bool) (st : TState) (t' : RTerm) (st' : TState)
    (h : addTime rf ff fp pos st t = .ok (t', st')) :
    (t.insts pos).mapM (stamp rf ff fp) = .ok (t'.insts pos) ∧ stampState rf ff fp st (t.insts pos) = .ok st' :=
  addTime_insts rf ff fp t pos st t' st' h

/-- `max_shift` after an atom term: at least every look-ahead that is not replaced, and attained -/
theorem max_shift_is_max (rf ff fp : Bool) (t : ATerm) (st : TState) (t' : RTerm) (st' : TState)
    (h : addTime rf ff fp true st t = .ok (t', st')) :
    (∀ i ∈ t.insts true, ∀ r, getParam i.name rf ff fp = .ok r → r.shift > 0 → r.future = false → r.shift ≤ st'.maxShift) ∧
    (st'.maxShift = st.maxShift ∨
      ∃ i ∈ t.insts true, ∃ r, getParam i.name rf ff fp = .ok r ∧ r.shift > 0 ∧ r.future = false ∧ r.shift = st'.maxShift) := by
  have hs := (addTime_insts rf ff fp t true st t' st' h).2
  exact ⟨stampState_maxShift_covers rf ff fp _ st st' hs, stampState_maxShift_attained rf ff fp _ st st' hs⟩

/-- future predicates are recorded per instance, with the sign the classical negations above it give -/
theorem future_sign_recorded (rf ff fp : Bool) (t : ATerm) (st : TState) (t' : RTerm) (st' : TState)
    (h : addTime rf ff fp true st t = .ok (t', st')) :
    ∀ i ∈ t.insts true, ∀ r, getParam i.name rf ff fp = .ok r → r.shift > 0 → r.future = true →
      ((r.name.drop Generated.futurePrefix.length).toString, i.args.length, i.positive, r.shift) ∈ st'.futures :=
  stampState_futures rf ff fp _ st st' (addTime_insts rf ff fp t true st t' st' h).2

/-- `create_symbol` gives back the symbol clingo presented -/
theorem symbol_roundtrip (s : Sym) (h : okSym s = true) : createSymbol (symTerm s) = .ok s := sym_roundtrip s h

/-! ### non-vacuity -/
example : (ATerm.pool [.fn "p''" ["1"], .neg (.fn "q'" ["X", "2"])]).insts true = [⟨true, "p''", ["1"]⟩, ⟨false, "q'", ["X", "2"]⟩] := by
  simp [ATerm.insts, ATerm.instsL]
example : IvSorted [⟨0, 2⟩, ⟨4, 5⟩] := by simp [IvSorted]
example : IntervalSet.add [⟨0, 2⟩, ⟨4, 5⟩] ⟨2, 4⟩ = [⟨0, 5⟩] := by decide

end TelProofs.C06
