/-
C06 — non-ground programs mean the same as their ground instances.

telingo's own part in this is small and is what is modelled: the time argument is appended by predicate *name*
only (`TermTransformer`, transformers/term.py, modelled by `addTime` on predicate / classical negation / pool terms and
compared with the real class on random terms); the ground elements of a theory atom, with their conditions, are folded
into one formula; symbols inside theory atoms are converted back by `create_symbol`; the numeric time ranges of a
head-formula atom are merged by `IntervalSet`.  Proved:
  * `time_arg_uniform`              adding the time parameter commutes with pool expansion and classical negation: every
                                    instance of the atom term gets the parameters its own predicate name asks for, and the
                                    bookkeeping is what handling the instances one by one gives
  * `time_arg_commutes_with_substitution`  the rewriting never looks at the arguments: rewriting a schema atom and then
                                    replacing its variables is rewriting the instance (same term, bookkeeping, rejections)
  * `term_conversion_preserves_value`  `theory_term_to_term` (arguments of head-formula atoms, n-fold prefixes; transformers/head.py)
                                    keeps the value of the term under every assignment: arithmetic, constant folding, tuples
  * `aux_atom_identifies_instance`  `get_variables` (transformers/head.py): the auxiliary atom of a head formula carries exactly
                                    the formula's variables, each once, ordered by name; equal auxiliary atoms, equal instance
  * `max_shift_is_max` / `future_sign_recorded`  `max_shift` ends as the maximum look-ahead over all instances that are
                                    not replaced; every replaced instance is recorded as a future predicate with its own sign
  * `symbol_roundtrip`              `create_symbol` applied to the theory term by which clingo presents a ground symbol
                                    (numbers, strings, `#inf`/`#sup`, function symbols, tuples, classical negation, any nesting)
                                    gives that symbol back
  * `elements_sem` / `element_sem`  the formula of `&tel{ f(X) : c(X) }` after grounding is the conjunction over the
                                    ground elements of `c(x) -> f(x)`, for any number of elements in any order
  * `interval_add` / `interval_addAll`  `IntervalSet.add` keeps the sorted-disjoint invariant and the set of time
                                    points is exactly the union of the added ranges — so the domain rule built from
                                    the merged ranges of a schema covers what the ranges of each instance cover
  * `transform_commutes_with_substitution` / `program_transform_commutes_with_substitution`  the same for whole statements and
                                    programs, a statement being the sequence of its atom occurrences with the flags of their positions
                                    (everything else in the AST is copied; model `addTimeStmt`, compared with one real
                                    `TermTransformer` visiting the atoms of a statement in order): same rewritten atoms, same
                                    `future_predicates` / `max_shift` at the end, same first rejection
PARTIAL: that clingo's grounder computes the instances is the grounder's contract; that `ProgramTransformer` visits exactly the
atoms of a statement with the flags of the position table is the C11 model (`flags_table`) and its grid correspondence; the
statement level is additionally covered by the search: schema vs its own textual instantiation over a finite domain (variables, pools, intervals, arithmetic,
comparisons, conditions, aggregates, n-fold prefixes given by variables, #show/#external), equal answer sets.
-/
import TelProofs.ElementsSem
import TelProofs.IntervalProofs
import TelModel.Reject
import TelProofs.TimeArgProofs
import TelProofs.SymRoundTrip
import TelProofs.TimeArgSubst
import TelProofs.StmtSubst
import TelProofs.TermConvProofs
import TelProofs.HeadVarsProofs

namespace TelProofs.C06
open TelSpec TelModel TelProofs

theorem elements_sem (h : Nat) (tr : Trace) (lv : Int → Bool) (k : Nat) (els : List TElem) (dyn : Bool) (f : BForm)
    (hf : translateElements els dyn = .ok f) :
    ∃ ws, els.mapM (fun e => elemFormula e dyn) = .ok ws ∧ f.sem h tr lv k = ws.all fun w => w.sem h tr lv k :=
  TelProofs.elements_sem h tr lv k els dyn f hf

theorem element_sem (h : Nat) (tr : Trace) (lv : Int → Bool) (k : Nat) (e : TElem) (dyn : Bool) (f w : BForm)
    (hf : (if dyn then createDynamicFormula e.term else createFormula e.term) = .ok f)
    (hw : elemFormula e dyn = .ok w) : w.sem h tr lv k = (!(e.cond.all lv) || f.sem h tr lv k) :=
  TelProofs.element_sem h tr lv k e dyn f w hf hw

theorem interval_add (s : List Ival) (y : Ival) (hs : IvSorted s) :
    IvSorted (IntervalSet.add s y) ∧
    ∀ x, IntervalSet.memPoint (IntervalSet.add s y) x = (IntervalSet.memPoint s x || Ival.mem x y) :=
  add_spec s y hs

/-- adding any sequence of ranges: invariant kept, members = union of the ranges -/
theorem interval_addAll (ys : List Ival) : ∀ (s : List Ival), IvSorted s →
    IvSorted (ys.foldl IntervalSet.add s) ∧
    ∀ x, IntervalSet.memPoint (ys.foldl IntervalSet.add s) x = (IntervalSet.memPoint s x || ys.any (Ival.mem x)) := by
  induction ys with
  | nil => intro s hs; exact ⟨hs, fun x => by simp⟩
  | cons y ys ih =>
    intro s hs
    obtain ⟨h1, h2⟩ := add_spec s y hs
    obtain ⟨i1, i2⟩ := ih _ h1
    refine ⟨i1, fun x => ?_⟩
    simp only [List.foldl_cons, i2 x, h2 x, List.any_cons, Bool.or_assoc]

/-- the time parameter is added uniformly -/
theorem time_arg_uniform (rf ff fp : Bool) (t : ATerm) (pos : Bool) (st : TState) (t' : RTerm) (st' : TState)
    (h : addTime rf ff fp pos st t = .ok (t', st')) :
    (t.insts pos).mapM (stamp rf ff fp) = .ok (t'.insts pos) ∧ stampState rf ff fp st (t.insts pos) = .ok st' :=
  addTime_insts rf ff fp t pos st t' st' h

/-- **rewriting commutes with substitution** on the term of an atom: replacing variables (any map `σ` on the argument
    texts) before or after the rewriting gives the same term, the same bookkeeping and the same rejections -/
theorem time_arg_commutes_with_substitution (rf ff fp : Bool) (σ : String → String) (t : ATerm) (pos : Bool) (st : TState) :
    addTime rf ff fp pos st (ATerm.substArgs σ t) =
      (addTime rf ff fp pos st t).map (fun p => (RTerm.substArgs σ p.1, p.2)) :=
  addTime_subst rf ff fp σ t pos st

/-- non-vacuity: `-p'(X) ; q(X,Y)` in a normal head with X ↦ 1, Y ↦ 2 -/
example : addTime true false true true {} (ATerm.substArgs (fun v => if v == "X" then "1" else "2")
            (.pool [.neg (.fn "p'" ["X"]), .fn "q" ["X", "Y"]])) =
          .ok (.pool [.neg (.fn "__future_p" ["1"] [.num 1, .time 1]), .fn "q" ["1", "2"] [.time 0]],
               { futures := [("p", 1, false, 1)], maxShift := 0 }) := by rfl

/-- **arithmetic inside head formulas**: `theory_term_to_term` (the arguments of the atoms of a head formula, the prefix
    of an n-fold next) turns a theory term into a plain term that has, under every assignment of the variables, the value
    the theory term reads — `-` / `+` as arithmetic with constants folded, tuples as tuples, function symbols as such -/
theorem term_conversion_preserves_value (tbl : List Generated.OpEntry) (σ : String → GVal) (t : HTerm) (p : PTerm)
    (h : convTerm tbl t = .ok p) : p.eval σ = t.eval σ :=
  conv_preserves tbl σ t p h

/-- non-vacuity: `p(X-2+1, (2+3)-X, (1,2))` with X ↦ 5 -/
example :
    (convTerm Generated.headTablePy (.fn "p" [.fn "+" [.fn "-" [.var "X", .num 2], .num 1], .fn "-" [.fn "+" [.num 2, .num 3], .var "X"],
        .tuple [.num 1, .num 2]])).toOption.bind (PTerm.eval (fun _ => .num 5)) =
      some (.fn "p" [.num 4, .num 0, .fn "" [.num 1, .num 2] true] true) := by rfl

/-- **variables of a head formula pass through the auxiliary atom**: `get_variables` returns exactly the variables that
    occur in the theory atom, each once, in the order of their names; so two ground instances of a rule `&tel{φ} :- B` whose
    auxiliary atoms `__aux_i(vars, t)` coincide have the same head formula — every instance of the rule keeps its own φ -/
theorem aux_atom_identifies_instance (t : HTerm) :
    (∀ x, x ∈ getVariables t ↔ x ∈ t.varsOf) ∧ (getVariables t).Pairwise (· < ·) ∧
    ∀ σ σ' : String → HTerm, (getVariables t).map σ = (getVariables t).map σ' → t.subst σ = t.subst σ' :=
  ⟨mem_getVariables t, getVariables_sorted t, aux_identifies_instance t⟩

/-- non-vacuity: `&tel { > p(Y, f(X)) | q(X) }` -/
example : getVariables (.fn "|" [.fn ">" [.fn "p" [.var "Y", .fn "f" [.var "X"]]], .fn "q" [.var "X"]]) = ["X", "Y"] := by decide

/-- `max_shift` after an atom term: at least every look-ahead that is not replaced, and attained -/
theorem max_shift_is_max (rf ff fp : Bool) (t : ATerm) (st : TState) (t' : RTerm) (st' : TState)
    (h : addTime rf ff fp true st t = .ok (t', st')) :
    (∀ i ∈ t.insts true, ∀ r, getParam i.name rf ff fp = .ok r → r.shift > 0 → r.future = false → r.shift ≤ st'.maxShift) ∧
    (st'.maxShift = st.maxShift ∨
      ∃ i ∈ t.insts true, ∃ r, getParam i.name rf ff fp = .ok r ∧ r.shift > 0 ∧ r.future = false ∧ r.shift = st'.maxShift) := by
  have hs := (addTime_insts rf ff fp t true st t' st' h).2
  exact ⟨stampState_maxShift_covers rf ff fp _ st st' hs, stampState_maxShift_attained rf ff fp _ st st' hs⟩

/-- future predicates are recorded per instance, with the sign the classical negations above it give -/
theorem future_sign_recorded (rf ff fp : Bool) (t : ATerm) (st : TState) (t' : RTerm) (st' : TState)
    (h : addTime rf ff fp true st t = .ok (t', st')) :
    ∀ i ∈ t.insts true, ∀ r, getParam i.name rf ff fp = .ok r → r.shift > 0 → r.future = true →
      ((r.name.drop Generated.futurePrefix.length).toString, i.args.length, i.positive, r.shift) ∈ st'.futures :=
  stampState_futures rf ff fp _ st st' (addTime_insts rf ff fp t true st t' st' h).2

/-- `create_symbol` gives back the symbol clingo presented -/
theorem symbol_roundtrip (s : Sym) (h : okSym s = true) : createSymbol (symTerm s) = .ok s := sym_roundtrip s h

/-! ### non-vacuity -/
example : (ATerm.pool [.fn "p''" ["1"], .neg (.fn "q'" ["X", "2"])]).insts true = [⟨true, "p''", ["1"]⟩, ⟨false, "q'", ["X", "2"]⟩] := by
  simp [ATerm.insts, ATerm.instsL]
example : IvSorted [⟨0, 2⟩, ⟨4, 5⟩] := by simp [IvSorted]
example : IntervalSet.add [⟨0, 2⟩, ⟨4, 5⟩] ⟨2, 4⟩ = [⟨0, 5⟩] := by decide

/-- **rewriting commutes with substitution on whole statements**: a statement is the sequence of its atom occurrences, each with
    the flags of its position; the bookkeeping is threaded through in visit order -/
theorem transform_commutes_with_substitution (σ : String → String) (os : List AtomOcc) (st : TState) :
    addTimeStmt (os.map (AtomOcc.subst σ)) st =
      (addTimeStmt os st).map (fun p => (p.1.map (RTerm.substArgs σ), p.2)) :=
  addTimeStmt_subst σ os st

/-- … and on programs: the future predicates and the maximal look-ahead recorded for a schema program are those of every
    instantiation -/
theorem program_transform_commutes_with_substitution (σ : String → String) (ss : List (List AtomOcc)) (st : TState) :
    addTimeProg (ss.map (List.map (AtomOcc.subst σ))) st =
      (addTimeProg ss st).map (fun p => (p.1.map (List.map (RTerm.substArgs σ)), p.2)) :=
  addTimeProg_subst σ ss st

end TelProofs.C06
