/-
C06 — non-ground programs mean the same as their ground instances.

telingo's own part in this is small and is what is modelled: the time argument is appended by predicate *name*
only (`getParam` / `acceptsAtom` take no arguments: uniform for every instance of a schema — validated on atom forms
with arguments, pools and classical negation by the C11 grid); the ground elements of a theory atom, with their conditions, are folded into one formula;
the numeric time ranges of a head-formula atom are merged by `IntervalSet`.  Proved:
  * `elements_sem` / `element_sem`  the formula of `&tel{ f(X) : c(X) }` after grounding is the conjunction over the
                                    ground elements of `c(x) -> f(x)`, for any number of elements in any order
  * `interval_add` / `interval_addAll`  `IntervalSet.add` keeps the sorted-disjoint invariant and the set of time
                                    points is exactly the union of the added ranges — so the domain rule built from
                                    the merged ranges of a schema covers what the ranges of each instance cover
PARTIAL: that clingo's grounder computes the instances is the grounder's contract; `transform_subst` (the rewriting
commutes with substitution on the full AST) and `create_symbol` round-trips are not proved; they are covered by the
search: schema vs its own textual instantiation over a finite domain (variables, pools, intervals, arithmetic,
comparisons, conditions, aggregates, n-fold prefixes given by variables, #show/#external), equal answer sets.
-/
import TelProofs.ElementsSem
import TelProofs.IntervalProofs
import TelModel.Reject

namespace TelProofs.C06
open TelSpec TelModel TelProofs

theorem elements_sem (h : Nat) (tr : Trace) (lv : Int → Bool) (k : Nat) (els : List TElem) (dyn : Bool) (f : BForm)
    (hf : translateElements els dyn = .ok f) :
    ∃ ws, els.mapM (fun e => elemFormula e dyn) = .ok ws ∧ f.sem h tr lv k = ws.all fun w => w.sem h tr lv k :=
  TelProofs.elements_sem h tr lv k els dyn f hf

theorem element_sem (h : Nat) (tr : Trace) (lv : Int → Bool) (k : Nat) (e : TElem) (dyn : Bool) (f w : BForm)
    (hf : (if dyn then createDynamicFormula e.term else createFormula e.term) = .ok f)
    (hw : elemFormula e dyn = .ok w) : w.sem h tr lv k = (!(e.cond.all lv) || f.sem h tr lv k) :=
  TelProofs.element_sem h tr lv k e dyn f w hf hw

theorem interval_add (s : List Ival) (y : Ival) (hs : IvSorted s) :
    IvSorted (IntervalSet.add s y) ∧
    ∀ x, IntervalSet.memPoint (IntervalSet.add s y) x = (IntervalSet.memPoint s x || Ival.mem x y) :=
  add_spec s y hs

/-- adding any sequence of ranges: invariant kept, members = union of the ranges -/
theorem interval_addAll (ys : List Ival) : ∀ (s : List Ival), IvSorted s →
    IvSorted (ys.foldl IntervalSet.add s) ∧
    ∀ x, IntervalSet.memPoint (ys.foldl IntervalSet.add s) x = (IntervalSet.memPoint s x || ys.any (Ival.mem x)) := by
  induction ys with
  | nil => intro s hs; exact ⟨hs, fun x => by simp⟩
  | cons y ys ih =>
    intro s hs
    obtain ⟨h1, h2⟩ := add_spec s y hs
    obtain ⟨i1, i2⟩ := ih _ h1
    refine ⟨i1, fun x => ?_⟩
    simp only [List.foldl_cons, i2 x, h2 x, List.any_cons, Bool.or_assoc]

/-! ### non-vacuity -/
example : IvSorted [⟨0, 2⟩, ⟨4, 5⟩] := by simp [IvSorted]
example : IntervalSet.add [⟨0, 2⟩, ⟨4, 5⟩] ⟨2, 4⟩ = [⟨0, 5⟩] := by decide

end TelProofs.C06
