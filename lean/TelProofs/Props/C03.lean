/-
C03 — `&tel` body formulas are evaluated with linear temporal logic on finite traces.

Chain of the argument:
  * `TelSpec.docSem`    the README operator table as LTL_f on a trace of length h+1  (specification)
  * `createFormula`     transcription of telingo/theory/body.py: theory term ↦ code-level formula (with the
                        code's expansion of `;>`, `<;`, `>>`, `<<`, keywords, n-fold prefixes)
  * `eqn`               transcription of each `do_translate`: what the literal of (formula, step) is made
                        equivalent to at horizon h
  * theorems            any valuation solving the equations is `docSem` — for every formula (any nesting,
                        any sharing: identity of pairs is (formula, step)), every state, every horizon.
The correspondence check (tools/impl_theory.py) establishes, on every run, that the literal valuation
of the real implementation in every answer set solves `eqn` on all reachable pairs, and that each
theory atom equals its root formula.
  * `clauses_bool` / `clauses_tel` / `clauses_eq`  the clause level (TelModel/Clauses.lean, transcribing `make_equal`,
                        `make_disjunction`, `BooleanFormula.do_translate`, `TelFormula._translate`): the integrity constraints
                        written for a connective, an induction step of since/trigger/until/release (binary or unary) or an
                        equivalence are not violated iff the formula's literal has the value of the one-step equation
                        (`binExpr` / `telStep` of `eqn`); the harness compares every such step of every run with the
                        model's clauses, literal for literal.
  * `theory_atoms_total_world`  the lifting to stable models, for any host program (generic answer-set programs,
                        TelProofs/Meta/DefExt.lean): when the program mentions the theory-atom literals only in rule
                        bodies and the translation adds only choices on fresh atoms, integrity constraints and
                        negative-body definitions, `X` is a stable model of the whole iff `X` is good for the added part
                        (by the theorems above: every fresh atom carries its LTL_f value on `X`'s trace) and `X` cut to
                        the program's atoms is a stable model of the program with each theory atom *replaced by its
                        truth value in `X` itself* — exactly how the specification `TSM` reads a `&tel` body literal
                        (`BLit.holds` evaluates it on the total trace in both worlds).
  * `placeholder_life`  the life of the obligation of a `>` beyond the horizon (model `nextTranslate` / `life` of
                        `Next.do_translate` and the todo list, TelModel/NextLife.lean; every call of the real method is compared
                        with the model): after the `translate` call of horizon h the pair (formula, step) is finished iff its
                        target state `step + n` exists; while it does not, the placeholder carries the operator's end-of-trace
                        value and the pair is queued under its own step; it is resolved — equated with the argument's literal at
                        `step + n`, set free — in exactly one call, the one of horizon `step + n`.  This is why `eqn` may read a
                        next formula as "the argument at `step + n` if that state exists, else the end-of-trace value" at every
                        horizon.
  * `occurrences_equated` / `occurrences_follow` / `formula_literal_stable`  the link between the theory atoms of the program and the
                        formula's literal (model `StepData` of `BodyFormula.translate` / `add_atom` / `StepData.add_literal`,
                        TelModel/StepData.lean; the real methods are driven with random call sequences against the model): for
                        every sequence of registrations of occurrence literals and translations of the (formula, step) pair —
                        occurrences that turn up in a later `Theory.translate` call included (regrounded constraints with a primed
                        atom and a `&tel` atom) — that ends with a translation, every registered occurrence is the formula's literal
                        or has been made equivalent to it, nothing else is written, and the formula's literal never changes.
-/
import TelProofs.Tseitin
import TelProofs.DocEq
import TelProofs.Meta.DefExt
import TelProofs.StepDataProofs
import TelProofs.TheoryCallProofs
import TelProofs.ClauseProofs
import TelProofs.NextLifeProofs

namespace TelProofs.C03
open TelSpec TelModel TelProofs

/-- (a) the code's formula construction implements the documented operator table -/
theorem doc_eq_sem (s : SForm) (hg : GoodAtoms s) :
    ∃ f, createFormula (toTerm s) = .ok f ∧ isTel f = true ∧
      ∀ (h : Nat) (tr : Trace) (lv : Int → Bool) (k : Nat), k ≤ h →
        f.sem h (withAdmin h tr) lv k = docSem h tr s k := by
  obtain ⟨f, hc, ht, hs⟩ := TelProofs.doc_eq_sem s hg
  exact ⟨f, hc, ht, hs⟩

/-- (b) the Tseitin-style equations have exactly one solution: the LTL_f semantics -/
theorem tseitin_unique {h : Nat} {tr : Trace} {lv : Int → Bool} {v : BForm → Nat → Bool}
    {S : BForm → Nat → Prop} (sys : Sys h tr lv v S) (f : BForm) (ht : isTel f = true) (k : Nat) (hS : S f k) :
    v f k = f.sem h tr lv k :=
  tel_unique sys f ht k hS

/-- (a)+(b): whatever the horizon, whatever else is being translated (the set `S`), the literal that the
    translation attaches to `&tel{s}` at state `k` has the LTL_f value of `s` at `k` — including the
    boundary rules (strong next false / weak next true at the last state), because `eqn h` resolves a
    `Next` beyond the horizon to its weakness flag and re-reads it at the next horizon. -/
theorem C03_value (s : SForm) (hg : GoodAtoms s) :
    ∃ f, createFormula (toTerm s) = .ok f ∧
      ∀ (h : Nat) (tr : Trace) (lv : Int → Bool) (v : BForm → Nat → Bool) (S : BForm → Nat → Prop),
        Sys h (withAdmin h tr) lv v S → ∀ k, S f k → v f k = docSem h tr s k := by
  obtain ⟨f, hc, ht, hs⟩ := TelProofs.doc_eq_sem s hg
  refine ⟨f, hc, ?_⟩
  intro h tr lv v S sys k hS
  rw [tel_unique sys f ht k hS]
  exact hs h tr lv k (sys.bound _ _ hS)

/-- Re-deciding when the horizon grows: the value at horizon `h` and at horizon `h+1` are each the
    LTL_f value on the respective trace — no residue of the shorter trace. -/
theorem C03_redecided (s : SForm) (hg : GoodAtoms s) :
    ∃ f, createFormula (toTerm s) = .ok f ∧
      ∀ (h : Nat) (tr : Trace) (lv : Int → Bool) (v v' : BForm → Nat → Bool) (S S' : BForm → Nat → Prop),
        Sys h (withAdmin h tr) lv v S → Sys (h+1) (withAdmin (h+1) tr) lv v' S' →
        ∀ k, S f k → S' f k → v f k = docSem h tr s k ∧ v' f k = docSem (h+1) tr s k := by
  obtain ⟨f, hc, hval⟩ := C03_value s hg
  exact ⟨f, hc, fun h tr lv v v' S S' sys sys' k hS hS' =>
    ⟨hval h tr lv v S sys k hS, hval (h+1) tr lv v' S' sys' k hS'⟩⟩

/-- (d) lifting to stable models of an arbitrary host program: theory atoms in rule bodies are evaluated in the
    total world of the candidate answer set -/
theorem theory_atoms_total_world {α : Type} [DecidableEq α] (P E : List (DefExt.Rule α)) (N : α → Bool)
    (hP : ∀ r ∈ P, ∀ a ∈ r.head, N a = false) (hE : ∀ r ∈ E, DefExt.EShape N r) (X : DefExt.Interp α) :
    DefExt.Stable (P ++ E) X ↔ (DefExt.Good E N X ∧ DefExt.Stable (DefExt.evalProg N X P) (DefExt.cut N X)) :=
  DefExt.stable_iff_eval P E N hP hE X

/-- clause level: Boolean connectives -/
theorem clauses_bool (v : Nat → Bool) (op : String) (lit lhs rhs : Int) (h0 : lit ≠ 0) (h1 : lhs ≠ 0) (h2 : rhs ≠ 0)
    (hop : op = "&" ∨ op = "|" ∨ op = "<-" ∨ op = "->" ∨ op = "<>") :
    clausesOk v (boolClauses op lit lhs rhs) = (litTrue v lit == boolVal op (litTrue v lhs) (litTrue v rhs)) :=
  boolClauses_ok v op lit lhs rhs h0 h1 h2 hop

/-- clause level: one induction step of `<?`, `<*`, `>?`, `>*` (binary: `lhs = some _`, unary: `none`) -/
theorem clauses_tel (v : Nat → Bool) (dual : Bool) (lit : Int) (lhs : Option Int) (rhs pre : Int)
    (h0 : lit ≠ 0) (h1 : ∀ l, lhs = some l → l ≠ 0) (h2 : rhs ≠ 0) (h3 : pre ≠ 0) :
    clausesOk v (telClauses dual lit lhs rhs pre) =
      (litTrue v lit == telVal dual (lhs.map (litTrue v)) (litTrue v rhs) (litTrue v pre)) :=
  telClauses_ok v dual lit lhs rhs pre h0 h1 h2 h3

/-- clause level: `make_equal` (theory-atom literals, placeholders of `>` beyond the horizon) -/
theorem clauses_eq (v : Nat → Bool) (a b : Int) (ha : a ≠ 0) (hb : b ≠ 0) :
    clausesOk v (makeEqual a b) = (litTrue v a == litTrue v b) := makeEqual_ok v a b ha hb

/-- the clause-level values are those of the equations -/
theorem clause_values_are_equations (op : String) (a b : BExpr) (dual : Bool) (l : Option BExpr) (r p : BExpr)
    (tr : Trace) (lv : Int → Bool) (val : BForm → Nat → Bool) :
    (binExpr op a b).eval tr lv val = boolVal op (a.eval tr lv val) (b.eval tr lv val) ∧
    (telStep dual l r p).eval tr lv val = telVal dual (l.map fun e => e.eval tr lv val) (r.eval tr lv val) (p.eval tr lv val) :=
  ⟨boolVal_binExpr op a b tr lv val, telVal_telStep dual l r p tr lv val⟩

/-! ### non-vacuity -/

/-- a concrete formula with nesting, past and future operators meets the hypotheses -/
example : GoodAtoms (.unt (.atom "a") (.seqNext true (.prev 2 false (.atom "b")) (.finally_ (.atom "a")))) := by
  simp [GoodAtoms, GoodAtom]; decide

/-- strong next is false and weak next is true at the last state -/
example : docSem 2 (fun _ _ => true) (.next 1 false (.atom "a")) 2 = false := by rfl
example : docSem 2 (fun _ _ => true) (.next 1 true (.atom "a")) 2 = true := by rfl

/-- **life cycle of a next formula's placeholder** across the horizons `h0, h0+1, …` of a run (first translated at horizon `h0`) -/
theorem placeholder_life (n : Nat) (weak : Bool) (step h0 : Nat) (k : Nat) :
    let (st, todo, act) := life n weak step h0 k
    (st = .done ↔ step + n ≤ h0 + k) ∧ (todo = if step + n ≤ h0 + k then none else some step) ∧
    (act = .resolve (step + n) ↔ (h0 < step + n ∧ h0 + k = step + n)) :=
  TelProofs.placeholder_life n weak step h0 k

/-- non-vacuity: `2 > p` first translated at step 0 when the horizon is 1 (reached through `< 2 > p` at step 1) -/
example : (List.range 4).map (fun k => (life 2 false 0 1 k).2.2) =
    [.placeholder false 0, .resolve 2, .nothing, .nothing] := by decide

/-! ### the theory atoms of the program and the literal of the formula -/

/-- Every sequence of `add_atom` / `translate` calls on one (formula, step) pair that ends with a `translate`: the formula has
    a literal; every occurrence literal registered so far is that literal or both clauses of their equivalence are written;
    every constraint written is such a clause. -/
theorem occurrences_equated (ops : List SDOp) (s : LitSource) :
    ∃ l, (StepData.run {} (ops ++ [.translate s])).1.literal = some l ∧
      (∀ a ∈ SD.added ops, a = l ∨ ∀ c ∈ makeEqual a l, SDOut.clause c ∈ (StepData.run {} (ops ++ [.translate s])).2) ∧
      (∀ c, SDOut.clause c ∈ (StepData.run {} (ops ++ [.translate s])).2 → ∃ a ∈ SD.added ops, c ∈ makeEqual a l) :=
  SD.occurrences_equated ops s

/-- … so in every answer set each occurrence of the theory atom has the value of the formula's literal -/
theorem occurrences_follow (ops : List SDOp) (s : LitSource) (v : Nat → Bool)
    (hv : ∀ c, SDOut.clause c ∈ (StepData.run {} (ops ++ [.translate s])).2 → Clause.ok v c = true) :
    ∃ l, (StepData.run {} (ops ++ [.translate s])).1.literal = some l ∧
      ∀ a ∈ SD.added ops, a ≠ 0 → l ≠ 0 → litTrue v a = litTrue v l :=
  SD.occurrences_follow ops s v hv

/-- the literal of a (formula, step) pair is fixed by the first translation -/
theorem formula_literal_stable (ops : List SDOp) (d : StepData) (l : Int) (h : d.literal = some l) :
    (d.run ops).1.literal = some l :=
  SD.literal_stable ops d l h

/-- Composition with the todo list over any number of `Theory.translate` calls (model `TheoryCall`; `GoodCall` — every queued
    pair is translated before the call returns, and the operations of the second loop on a pair are none or end with a
    translation — is checked on every call of the real method): every ground theory atom met in any call is the literal of its
    (formula, step) pair or has both clauses of the equivalence with it written, also when it turns up only after an earlier
    call has translated the pair. -/
theorem theory_atoms_equated (calls : List TheoryCall) (hg : ∀ p ∈ calls, TC.GoodCall p) (k : TodoKey) (a : Int)
    (ha : ∃ p ∈ calls, (k, a) ∈ p.atoms) :
    ∃ l, (StepData.run {} (projKey k (TC.runOps calls))).1.literal = some l ∧
      (a = l ∨ ∀ c ∈ makeEqual a l, SDOut.clause c ∈ (StepData.run {} (projKey k (TC.runOps calls))).2) :=
  TC.theory_atoms_equated calls hg k a ha

/-- `GoodCall` is satisfiable: a call with one theory atom whose pair is translated -/
example : TC.GoodCall { atoms := [((0, "(a())"), 5)], pending := [], body := [((0, "(a())"), .translate (.assign 3))] } := by
  refine ⟨?_, ?_⟩
  · intro k hk
    have : k = (0, "(a())") := by
      have := ((todo_exactly_once [(0, "(a())")]).2 k).mp (by simpa [TheoryCall.queue] using hk)
      simpa using this
    subst this
    exact ⟨.assign 3, by simp⟩
  · intro k
    by_cases h : ((0, "(a())") : TodoKey) == k
    · right; exact ⟨[], .assign 3, by simp [projKey, h]⟩
    · left; simp [projKey, h]

/-- an occurrence that is registered after the pair has been translated (a later `Theory.translate` call) is equated by the
    next translation: registrations 5, translation (5 becomes the representative), registration 7, translation -/
example : (StepData.run {} [.addAtom 5, .translate (.own 9), .addAtom 7, .translate (.own 10)]).1.literal = some 5 ∧
    (StepData.run {} [.addAtom 5, .translate (.own 9), .addAtom 7, .translate (.own 10)]).2 =
      [.clause [5, -5], .clause [-5, 5], .clause [7, -5], .clause [-7, 5]] := by decide

/-- without registered occurrences `add_literal` takes a fresh atom under a choice rule -/
example : (StepData.run {} [.translate (.own 9), .addAtom 7, .translate (.own 10)]).2 =
    [.choice 9, .clause [7, -9], .clause [-7, 9]] := by decide

end TelProofs.C03
