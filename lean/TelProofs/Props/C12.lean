/-
C12 — answer sets do not depend on statement order, duplication or file layout.

At the level of the model: the ground program accumulated at horizon h depends on the temporal program
only through membership of its rules (`G_congr`), stable models depend on a ground program only through
membership (`stable_mem_congr`), and the specification likewise (`tsm_mem_congr`).  Permuting the
statements of a part, repeating a statement and distributing the statements over files (each keeping its
part) all preserve membership.  For theory atoms: whatever the order in which formulas and todo entries
are processed, a solution of the equation system is unique (`formula_values_order_indep`); the todo list of `Theory`
holds every requested (step, formula) pair exactly once whatever the order and multiplicity of the requests
(`todo_entries_once`, `todo_request_order_independent`; the model `addTodo` is compared with the real `add_todo`).
The layout of the *text* (directives, files starting in `base`) is clingo's parser and `transform`; it is
covered by the metamorphic search on the implementation.
-/
import TelProofs.OrderIndep
import TelProofs.Tseitin
import TelProofs.TodoProofs
import TelProofs.StepDataProofs

namespace TelProofs.C12
open TelSpec TelModel TelProofs

/-- **C12** (model): same rules, same answer sets, at every horizon of the incremental run -/
theorem answer_sets_order_indep {P Q : TProg} (hm : SameRules P Q) (h : Nat) (X : Interp) :
    Stable (G P h) X ↔ Stable (G Q h) X :=
  stable_mem_congr (G_congr hm h) X

/-- **C12** (specification) -/
theorem tsm_order_indep {P Q : TProg} (hm : SameRules P Q) (h : Nat) (T : Trace) : TSM h P T ↔ TSM h Q T :=
  tsm_mem_congr hm h T

/-- reordering -/
theorem perm_same {P Q : TProg} (hp : List.Perm P Q) : SameRules P Q := fun _ => hp.mem_iff

/-- repeating a statement -/
theorem dup_same (P : TProg) (r : TRule) (hr : r ∈ P) : SameRules (r :: P) P := by
  intro x
  constructor
  · intro hx
    rcases List.mem_cons.mp hx with rfl | hx
    · exact hr
    · exact hx
  · intro hx; exact List.mem_cons_of_mem _ hx

/-- distributing over files in any order -/
theorem files_same (P1 P2 : TProg) : SameRules (P1 ++ P2) (P2 ++ P1) := by
  intro x; simp only [List.mem_append]; exact Or.comm

theorem perm_answer_sets {P Q : TProg} (hp : List.Perm P Q) (h : Nat) (X : Interp) :
    Stable (G P h) X ↔ Stable (G Q h) X := answer_sets_order_indep (perm_same hp) h X

theorem dup_answer_sets (P : TProg) (r : TRule) (hr : r ∈ P) (h : Nat) (X : Interp) :
    Stable (G (r :: P) h) X ↔ Stable (G P h) X := answer_sets_order_indep (dup_same P r hr) h X

/-- the values of the formula literals do not depend on the order in which theory atoms / todo entries are
    handled: any two solutions of the equation system coincide on temporal formulas -/
theorem formula_values_order_indep {h : Nat} {tr : Trace} {lv : Int → Bool} {v v' : BForm → Nat → Bool}
    {S : BForm → Nat → Prop} (s1 : Sys h tr lv v S) (s2 : Sys h tr lv v' S) (f : BForm) (ht : isTel f = true)
    (k : Nat) (hS : S f k) : v f k = v' f k := by
  rw [tel_unique s1 f ht k hS, tel_unique s2 f ht k hS]

/-! ### non-vacuity -/
example : SameRules [(⟨.always, .choice ["a"], []⟩ : TRule), ⟨.dynamic, .atom "b" 1, [.atom .pos "a" (-1)]⟩]
                    [⟨.dynamic, .atom "b" 1, [.atom .pos "a" (-1)]⟩, ⟨.always, .choice ["a"], []⟩, ⟨.always, .choice ["a"], []⟩] := by
  intro x; simp only [List.mem_cons, List.mem_nil_iff, or_false]
  constructor
  · rintro (h | h) <;> simp [h]
  · rintro (h | h | h) <;> simp [h]

/-- `Theory.add_todo`: after any sequence of requests the queue holds exactly the requested (step, formula) pairs, each
    once — the same sub-formula in several theory atoms or a repeated statement queues nothing twice -/
theorem todo_entries_once (ks : List TodoKey) : (todoAfter ks).Nodup ∧ ∀ x, x ∈ todoAfter ks ↔ x ∈ ks :=
  todo_exactly_once ks

/-- … and which pairs are queued does not depend on the order or multiplicity of the requests -/
theorem todo_request_order_independent (ks ks' : List TodoKey) (h : ∀ x, x ∈ ks ↔ x ∈ ks') :
    ∀ x, x ∈ todoAfter ks ↔ x ∈ todoAfter ks' :=
  todo_set_independent ks ks' h

example : todoAfter [(1, "a"), (0, "(a&b)"), (1, "a"), (1, "b"), (0, "(a&b)")] = [(1, "a"), (0, "(a&b)"), (1, "b")] := by decide

/-- The program literal that stands for a (formula, step) pair does not depend on the order or multiplicity in which the
    occurrences of the theory atom are met (statement order, duplicates, file layout decide the order of `prg.theory_atoms`):
    `StepData.add_literal` takes the smallest registered literal (model `StepData`, tied to the real methods in the check of C03). -/
theorem representative_order_independent (as bs : List Int) (fresh : Int) (hm : ∀ x, x ∈ as ↔ x ∈ bs) :
    (StepData.run {} (SD.regs as ++ [.translate (.own fresh)])).1.literal =
    (StepData.run {} (SD.regs bs ++ [.translate (.own fresh)])).1.literal :=
  SD.representative_order_independent as bs fresh hm

example : (StepData.run {} (SD.regs [7, 3, 7, 5] ++ [.translate (.own 9)])).1.literal = some 3 := by decide

end TelProofs.C12
