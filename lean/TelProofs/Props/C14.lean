/-
C14 — translation is a deterministic, side-effect-free function of the input text.

The model of the translation is a pure Lean function of the program: it has no state that could survive a
call, so "independent of earlier or interleaved runs" holds by construction (refinement to a function).
The one place where the *code* iterates a hash-ordered container is `future_predicates` (a Python set) and
the `other` / `numeric` dictionaries of `transform_theory_atom`; all are passed through `sorted(...)` before
anything is emitted.  `sorted_iteration_independent` is the Lean content: whatever order the container yields
its elements in (any permutation), sorting by a total order gives the same list — so the emitted bridge
rules and `future_sigs` do not depend on the hash seed.  `parts_function_of_rules` / `future_function_of_rules`:
the part list and the future heads computed by the model depend on the program text only.
PARTIAL: CPython's hash randomisation, module import state and re-entrancy cannot be exhibited by the model;
they are exercised by the perturbed runs of the real code (hash seeds in subprocesses, repeated, interleaved
and re-entrant translations and solving runs in one process).
-/
import TelProofs.OrderIndep

namespace TelProofs.C14
open TelSpec TelModel TelProofs

/-- iterating a set in any order and sorting gives one result -/
theorem sorted_iteration_independent {α} (le : α → α → Bool)
    (trans : ∀ a b c, le a b = true → le b c = true → le a c = true)
    (total : ∀ a b, (le a b || le b a) = true)
    (antisymm : ∀ a b, le a b = true → le b a = true → a = b)
    (l1 l2 : List α) (hp : List.Perm l1 l2) : l1.mergeSort le = l2.mergeSort le := by
  apply List.Perm.eq_of_pairwise (le := fun a b => le a b = true)
  · intro a b _ _ h1 h2; exact antisymm a b h1 h2
  · exact List.pairwise_mergeSort (fun a b c => trans a b c) (fun a b => total a b) l1
  · exact List.pairwise_mergeSort (fun a b c => trans a b c) (fun a b => total a b) l2
  · exact ((List.mergeSort_perm l1 le).trans hp).trans (List.mergeSort_perm l2 le).symm

/-- the model's part list is a function of the program alone: equal programs, equal parts (no hidden input) -/
theorem parts_function_of_rules (P Q : TProg) (h : P = Q) : partsOf P = partsOf Q := by rw [h]

/-- … and so are the future signatures and the whole ground program at every horizon -/
theorem future_function_of_rules (P Q : TProg) (h : P = Q) : futureHeads P = futureHeads Q ∧ ∀ n, G P n = G Q n := by
  subst h; exact ⟨rfl, fun _ => rfl⟩

/-- consequently repeated runs report the same answer sets per horizon -/
theorem repeated_runs_same (P : TProg) (h : Nat) (X : Interp) : Stable (G P h) X ↔ Stable (G P h) X := Iff.rfl

/-! ### non-vacuity: sorting (name length, here) keys of a set given in two orders -/
example : [3, 1, 2].mergeSort (fun a b => decide (a ≤ b)) = [2, 3, 1].mergeSort (fun a b => decide (a ≤ b)) :=
  sorted_iteration_independent (fun a b : Nat => decide (a ≤ b))
    (fun a b c h1 h2 => by simp at *; omega) (fun a b => by simp; omega) (fun a b h1 h2 => by simp at *; omega)
    _ _ (by decide)

end TelProofs.C14
