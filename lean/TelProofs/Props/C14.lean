/-
C14 — translation is a deterministic, side-effect-free function of the input text.

The model of the translation is a pure Lean function of the program: it has no state that could survive a
call, so "independent of earlier or interleaved runs" holds by construction (refinement to a function).
The one place where the *code* iterates a hash-ordered container is `future_predicates` (a Python set) and
the `other` / `numeric` dictionaries of `transform_theory_atom`; all are passed through `sorted(...)` before
anything is emitted.  `sorted_iteration_independent` is the Lean content: whatever order the container yields
its elements in (any permutation), sorting by a total order gives the same list — so the emitted bridge
rules and `future_sigs` do not depend on the hash seed.  `variable_tuple_order_independent`: the argument tuple of the
auxiliary atom of a head formula depends on the set of its variables only; `ranges_insertion_order_independent`: so do the
time points covered by the merged ranges of a head-formula atom.  (That the model's part list, future signatures and ground
program are functions of the program text needs no theorem: they are Lean functions.)
PARTIAL: CPython's hash randomisation, module import state and re-entrancy cannot be exhibited by the model;
they are exercised by the perturbed runs of the real code (hash seeds in subprocesses, repeated, interleaved
and re-entrant translations and solving runs in one process).
-/
import TelProofs.OrderIndep
import TelProofs.HeadVarsProofs
import TelProofs.IntervalProofs

namespace TelProofs.C14
open TelSpec TelModel TelProofs

/-- iterating a set in any order and sorting gives one result -/
theorem sorted_iteration_independent {α} (le : α → α → Bool)
    (trans : ∀ a b c, le a b = true → le b c = true → le a c = true)
    (total : ∀ a b, (le a b || le b a) = true)
    (antisymm : ∀ a b, le a b = true → le b a = true → a = b)
    (l1 l2 : List α) (hp : List.Perm l1 l2) : l1.mergeSort le = l2.mergeSort le := by
  apply List.Perm.eq_of_pairwise (le := fun a b => le a b = true)
  · intro a b _ _ h1 h2; exact antisymm a b h1 h2
  · exact List.pairwise_mergeSort (fun a b c => trans a b c) (fun a b => total a b) l1
  · exact List.pairwise_mergeSort (fun a b c => trans a b c) (fun a b => total a b) l2
  · exact ((List.mergeSort_perm l1 le).trans hp).trans (List.mergeSort_perm l2 le).symm

/-- the arguments of the auxiliary atom of a head formula (`get_variables`: a dictionary keyed by name, read in key order)
    depend on the *set* of variables only — not on where, how often, or in which order they occur or are visited -/
theorem variable_tuple_order_independent (t t' : HTerm) (h : ∀ x, x ∈ t.varsOf ↔ x ∈ t'.varsOf) :
    getVariables t = getVariables t' :=
  getVariables_set t t' h

/-- the time points covered by the merged ranges of a head-formula atom (`IntervalSet`) do not depend on the order in which
    the ranges were added (the traversal order of the formula) -/
theorem ranges_insertion_order_independent (ys ys' : List Ival) (hp : List.Perm ys ys') (x : Int) :
    IntervalSet.memPoint (ys.foldl IntervalSet.add []) x = IntervalSet.memPoint (ys'.foldl IntervalSet.add []) x := by
  have h1 := (addAll_spec ys [] (by simp [IvSorted])).2 x
  have h2 := (addAll_spec ys' [] (by simp [IvSorted])).2 x
  rw [h1, h2]
  congr 1
  rw [Bool.eq_iff_iff, List.any_eq_true, List.any_eq_true]
  exact ⟨fun ⟨y, hy, hm⟩ => ⟨y, hp.mem_iff.mp hy, hm⟩, fun ⟨y, hy, hm⟩ => ⟨y, hp.mem_iff.mpr hy, hm⟩⟩

/-! ### non-vacuity: sorting (name length, here) keys of a set given in two orders -/
example : [3, 1, 2].mergeSort (fun a b => decide (a ≤ b)) = [2, 3, 1].mergeSort (fun a b => decide (a ≤ b)) :=
  sorted_iteration_independent (fun a b : Nat => decide (a ≤ b))
    (fun a b c h1 h2 => by simp at *; omega) (fun a b => by simp; omega) (fun a b h1 h2 => by simp at *; omega)
    _ _ (by decide)

end TelProofs.C14
