/-
C08 — the solving loop visits horizons 0,1,2,... and stops as imin/imax/istop dictate.

All statements are about `TelModel.run`, whose loop test, option parsers and defaults are
regenerated from /repo/telingo/__init__.py on every check (`TelModel.Generated`).  `res k` is
the result of the solve call at horizon `k`; `fuel` bounds how many iterations we look at, so
every statement holds for every prefix of a (possibly non-terminating) run.
-/
import TelProofs.Loop

namespace TelProofs.C08
open TelModel TelModel.Generated TelProofs

/-- No internal error: the loop test never reads `ret` while it is `None`, never compares with
    `None`, whatever the options are. -/
theorem loop_no_internal (o : Opts) (res : Nat → SolveResult) (fuel : Nat) :
    ∃ l, run o res fuel = .ok l := ⟨_, run_eq o res fuel⟩

/-- Horizons are visited as 0,1,2,… without gaps or repetitions: the n-th solve call is at horizon n. -/
theorem loop_horizons (o : Opts) (res : Nat → SolveResult) (fuel : Nat) (l : List Nat)
    (h : run o res fuel = .ok l) : l = List.range l.length := by
  rw [run_eq] at h; cases h
  rw [List.range_eq_range']
  exact loopList_range' o res fuel 0

/-- Never more than `imax` solve calls. -/
theorem loop_le_imax (o : Opts) (res : Nat → SolveResult) (fuel : Nat) (l : List Nat) (m : Int)
    (hm : o.imax = some m) (h : run o res fuel = .ok l) : (l.length : Int) ≤ max m 0 := by
  rw [run_eq] at h; cases h
  by_cases hl : (loopList o res fuel 0).length = 0
  · rw [hl]; omega
  · -- the last element admitted is `length - 1`, and `cont` implies `< m`
    have hr := loopList_range' o res fuel 0
    have hmem : (loopList o res fuel 0).length - 1 ∈ loopList o res fuel 0 := by
      rw [hr]; simp [List.mem_range']; omega
    have hc := loopList_cont o res fuel 0 _ hmem
    unfold cont belowMax at hc
    rw [hm] at hc
    split at hc <;> simp at hc <;> omega

/-- At least `min(imin, imax)` solve calls (given that much fuel). -/
theorem loop_ge_min (o : Opts) (res : Nat → SolveResult) (fuel : Nat) (l : List Nat) (n : Nat)
    (h : run o res fuel = .ok l) (hf : n ≤ fuel) (himin : (n : Int) ≤ o.imin)
    (himax : ∀ m, o.imax = some m → (n : Int) ≤ m) : n ≤ l.length := by
  rw [run_eq] at h; cases h
  apply loopList_length_ge o res fuel 0 n hf
  intro s _ hs
  have hb : belowMax o.imax s = true := by
    unfold belowMax
    cases hm : o.imax with
    | none => rfl
    | some m => have := himax m hm; simp; omega
  unfold cont
  split
  · rename_i h0; subst h0; exact hb
  · simp [hb]; left; omega

/-- At least one solve call unless `imax ≤ 0`. -/
theorem loop_ge_one (o : Opts) (res : Nat → SolveResult) (fuel : Nat) (l : List Nat)
    (h : run o res fuel = .ok l) (hf : 1 ≤ fuel) (himax : ∀ m, o.imax = some m → 0 < m) : 1 ≤ l.length := by
  rw [run_eq] at h; cases h
  apply loopList_length_ge o res fuel 0 1 hf
  intro s h1 h2
  have : s = 0 := by omega
  subst this
  unfold cont belowMax
  cases hm : o.imax with
  | none => simp
  | some m => have := himax m hm; simp; omega

/-- When the loop has stopped after `n ≥ 1` calls (it did not merely run out of the fuel we gave it):
    either `imax` is reached, or `imin` calls were made and the last result meets the stop criterion;
    and it did not stop earlier although it could have. -/
theorem loop_stop (o : Opts) (res : Nat → SolveResult) (fuel : Nat) (l : List Nat)
    (h : run o res fuel = .ok l) (hdone : l.length < fuel) (hpos : 0 < l.length) :
    ((∃ m, o.imax = some m ∧ m ≤ (l.length : Int)) ∨
      (o.imin ≤ (l.length : Int) ∧ contMatch o.istop (res (l.length - 1)) = false)) ∧
    (∀ s, 0 < s → s < l.length →
      (∀ m, o.imax = some m → (s : Int) < m) ∧
      ((s : Int) < o.imin ∨ contMatch o.istop (res (s - 1)) = true)) := by
  rw [run_eq] at h; cases h
  constructor
  · have hs := loopList_stop o res fuel 0 hdone
    simp only [Nat.zero_add] at hs
    unfold cont at hs
    have hne : (loopList o res fuel 0).length ≠ 0 := by omega
    simp only [hne, if_false] at hs
    cases hb : belowMax o.imax (loopList o res fuel 0).length
    · left
      unfold belowMax at hb
      cases hm : o.imax with
      | none => rw [hm] at hb; simp at hb
      | some m => rw [hm] at hb; simp at hb; exact ⟨m, rfl, hb⟩
    · right
      rw [hb] at hs
      simp at hs
      exact ⟨hs.1, hs.2⟩
  · intro s hs0 hsl
    have hmem : s ∈ loopList o res fuel 0 := by
      rw [loopList_range' o res fuel 0]; simp [List.mem_range']; omega
    have hc := loopList_cont o res fuel 0 s hmem
    unfold cont at hc
    have hne : s ≠ 0 := by omega
    simp only [hne, if_false, Bool.and_eq_true, Bool.or_eq_true, decide_eq_true_eq] at hc
    refine ⟨?_, hc.2⟩
    intro m hm
    have := hc.1
    unfold belowMax at this
    rw [hm] at this
    simpa using this

/-- Zero calls only when `imax ≤ 0`. -/
theorem loop_zero (o : Opts) (res : Nat → SolveResult) (fuel : Nat)
    (h : run o res fuel = .ok []) (hf : 0 < fuel) : ∃ m, o.imax = some m ∧ m ≤ 0 := by
  rw [run_eq] at h
  have hs := loopList_stop o res fuel 0 (by rw [Except.ok.inj h]; simpa using hf)
  rw [Except.ok.inj h] at hs
  simp [cont, belowMax] at hs
  cases hm : o.imax with
  | none => rw [hm] at hs; simp at hs
  | some m => rw [hm] at hs; simp at hs; exact ⟨m, rfl, hs⟩

/-- With the default options the first satisfiable horizon is where the run ends: the first answer
    set reported has the shortest possible trace. -/
theorem loop_first_sat_shortest (res : Nat → SolveResult) (fuel : Nat) (l : List Nat)
    (h : run {} res fuel = .ok l) (hdone : l.length < fuel) :
    0 < l.length ∧ res (l.length - 1) = .sat ∧ ∀ k, k + 1 < l.length → res k ≠ .sat := by
  have hpos : 0 < l.length := by
    rcases Nat.eq_zero_or_pos l.length with h0 | h0
    · have hl : l = [] := List.eq_nil_of_length_eq_zero h0
      subst hl
      have := loop_zero {} res fuel h (by simp at hdone; exact hdone)
      simp [defaultImax] at this
    · exact h0
  have hs := loop_stop {} res fuel l h hdone hpos
  refine ⟨hpos, ?_, ?_⟩
  · rcases hs.1 with ⟨m, hm, _⟩ | ⟨_, hc⟩
    · simp [defaultImax] at hm
    · simp only [defaultIstop, contMatch] at hc
      revert hc
      cases res (l.length - 1) <;> decide
  · intro k hk
    have := (hs.2 (k+1) (by omega) hk).2
    rcases this with h1 | h1
    · simp [defaultImin] at h1; omega
    · simp only [defaultIstop, contMatch, Nat.add_sub_cancel] at h1
      revert h1
      cases res k <;> decide

/-- The options only select which horizons are solved: two runs under different options make the
    same calls (grounding, translation, externals, assumptions) for every horizon both reach. -/
theorem calls_independent_of_options (o o' : Opts) (parts : List PartSpec) (atoms : Nat → List SigAtom)
    (res : Nat → SolveResult) (fuel : Nat) (log log' : List Call)
    (h : callLog o parts atoms res fuel = .ok log) (h' : callLog o' parts atoms res fuel = .ok log') :
    ∃ n n', log = (List.range n).flatMap (fun s => stepCalls parts (atoms s) s) ∧
            log' = (List.range n').flatMap (fun s => stepCalls parts (atoms s) s) := by
  unfold callLog at h h'
  rw [run_eq] at h h'
  simp only [bind, Except.bind, pure, Except.pure] at h h'
  cases h; cases h'
  refine ⟨(loopList o res fuel 0).length, (loopList o' res fuel 0).length, ?_, ?_⟩
  · conv => lhs; rw [loopList_range' o res fuel 0, ← List.range_eq_range']
  · conv => lhs; rw [loopList_range' o' res fuel 0, ← List.range_eq_range']

/-- Refinement to the specification `TelSpec.specCalls` (the property statement as a function):
    for every admissible stop criterion the horizons solved are exactly `0 .. specCalls - 1`. -/
theorem loop_refines_spec (o : Opts) (st : TelSpec.Stop) (h : TelSpec.Stop.ofString? o.istop = some st)
    (res : Nat → SolveResult) (fuel : Nat) :
    run o res fuel = .ok (List.range (TelSpec.specCalls o.imin o.imax st ((List.range fuel).map res))) :=
  run_refines_spec o st h res fuel

/-! ### Option values -/

/-- `--imin=v` is accepted exactly for decimal integers `≥ 0`; no exception escapes the parser. -/
theorem parse_imin_spec (v : String) :
    (∀ x, pyInt v = .ok x → parseImin v = .ok (x, decide (x ≥ 0))) ∧
    (pyInt v = .error .valueError → ∃ d, parseImin v = .ok (d, false)) := by
  constructor
  · intro x hx
    simp [parseImin, hx, pure, Except.pure]
    -- equivalent spellings of the test (`not x < 0`, `0 <= x`) leave a Boolean identity over the integers
    all_goals (try (by_cases h0 : x < 0 <;> simp [h0] <;> omega))
  · intro he; exact ⟨0, by simp [parseImin, he, pure, Except.pure]⟩

/-- `--imax=v`: empty means unbounded, otherwise as `--imin`. -/
theorem parse_imax_spec (v : String) :
    (v.length = 0 → parseImax v = .ok (none, true)) ∧
    (0 < v.length → ∀ x, pyInt v = .ok x → parseImax v = .ok (some x, decide (x ≥ 0))) ∧
    (0 < v.length → pyInt v = .error .valueError → ∃ d, parseImax v = .ok (d, false)) := by
  refine ⟨?_, ?_, ?_⟩
  · intro h; simp [parseImax, h, pure, Except.pure]
  · intro h x hx
    have hne : v.length ≠ 0 := by omega
    simp [parseImax, hx, pure, Except.pure, hne]
    all_goals (try (by_cases h0 : x < 0 <;> simp [h0] <;> omega))
  · intro h he
    refine ⟨none, ?_⟩
    have hne : v.length ≠ 0 := by omega
    simp [parseImax, he, pure, Except.pure, hne]

/-- `--istop=v` is accepted exactly for sat/unsat/unknown, case-insensitively. -/
theorem parse_istop_spec (v : String) :
    parseIstop v = .ok (pyUpper v, decide (pyUpper v = "SAT" ∨ pyUpper v = "UNSAT" ∨ pyUpper v = "UNKNOWN")) := by
  simp [parseIstop, pure, Except.pure]
  -- `if x not in (...): return False; return True` instead of `return x in [...]`
  all_goals (try (split <;> simp_all))
  all_goals (try (by_cases h1 : pyUpper v = "UNKNOWN" <;> by_cases h2 : pyUpper v = "UNSAT" <;> simp_all))

/-- `pyInt` (the model of `int(str)`) fails only with ValueError -/
theorem pyInt_error (v : String) (e : PyErr) (h : pyInt v = .error e) : e = .valueError := by
  unfold pyInt at h
  split at h
  · simp at h
  · simp at h; exact h.symm

/-- Invalid option values are rejected, never crash: `applyOption` has no `crashed` outcome. -/
theorem options_never_crash (o : Opts) (name value : String) :
    ∀ e, applyOption o name value ≠ .crashed e := by
  intro e h
  unfold applyOption at h
  split at h
  · -- imin
    rcases hv : pyInt value with e' | x
    · have := pyInt_error value e' hv; subst this
      obtain ⟨d, hd⟩ := (parse_imin_spec value).2 hv
      simp [hd] at h
    · have := (parse_imin_spec value).1 x hv
      rw [this] at h
      by_cases hx : x ≥ 0 <;> simp [hx] at h
  · rcases Nat.eq_zero_or_pos value.length with h0 | h0
    · rw [(parse_imax_spec value).1 h0] at h; simp at h
    · rcases hv : pyInt value with e' | x
      · have := pyInt_error value e' hv; subst this
        obtain ⟨d, hd⟩ := (parse_imax_spec value).2.2 h0 hv
        simp [hd] at h
      · have := (parse_imax_spec value).2.1 h0 x hv
        rw [this] at h
        by_cases hx : x ≥ 0 <;> simp [hx] at h
  · rw [parse_istop_spec] at h
    split at h <;> simp_all
  · simp at h

/-- An accepted option leaves admissible values: `imin ≥ 0`, `imax ≥ 0` or unbounded, `istop` one of the three. -/
theorem options_accepted_valid (name value : String) (o' : Opts)
    (h : applyOption {} name value = .accepted o') :
    0 ≤ o'.imin ∧ (∀ m, o'.imax = some m → 0 ≤ m) ∧ (o'.istop = "SAT" ∨ o'.istop = "UNSAT" ∨ o'.istop = "UNKNOWN") := by
  unfold applyOption at h
  split at h
  · rcases hv : pyInt value with e' | x
    · have := pyInt_error value e' hv; subst this
      obtain ⟨d, hd⟩ := (parse_imin_spec value).2 hv
      simp [hd] at h
    · rw [(parse_imin_spec value).1 x hv] at h
      by_cases hx : x ≥ 0
      · simp [hx] at h; subst h; simp [defaultImax, defaultIstop]; omega
      · simp [hx] at h
  · rcases Nat.eq_zero_or_pos value.length with h0 | h0
    · rw [(parse_imax_spec value).1 h0] at h; simp at h; subst h; simp [defaultImin, defaultIstop]
    · rcases hv : pyInt value with e' | x
      · have := pyInt_error value e' hv; subst this
        obtain ⟨d, hd⟩ := (parse_imax_spec value).2.2 h0 hv
        simp [hd] at h
      · rw [(parse_imax_spec value).2.1 h0 x hv] at h
        by_cases hx : x ≥ 0
        · simp [hx] at h; subst h; simp [defaultImin, defaultIstop]; omega
        · simp [hx] at h
  · rw [parse_istop_spec] at h
    split at h
    · rename_i v hh; simp at hh; obtain ⟨hv, hd⟩ := hh; subst hv; simp at h; subst h
      simp [defaultImin, defaultImax]
      exact hd
    · simp at h
    · simp at h
  · simp at h

/-! ### Non-vacuity: concrete runs -/

/-- results UNSAT, UNSAT, SAT: default options stop after three calls at horizons 0,1,2 -/
example : run {} (fun k => if k < 2 then .unsat else .sat) 10 = .ok [0, 1, 2] := by rfl
/-- imin = 5 overrides an early SAT, imax = 4 caps it -/
example : run { imin := 5, imax := some 4 } (fun _ => .sat) 10 = .ok [0, 1, 2, 3] := by rfl
example : run { imax := some 0 } (fun _ => .sat) 10 = .ok [] := by rfl
example : run { istop := "UNSAT" } (fun k => if k < 1 then .sat else .unsat) 10 = .ok [0, 1] := by rfl
example : applyOption {} "imin" "abc" = .rejected := by rfl
example : applyOption {} "imax" "-1" = .rejected := by rfl

end TelProofs.C08
