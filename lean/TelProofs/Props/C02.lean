/-
C02 — future references obey the end of the trace while the trace is extended.

Proved here about the model's accumulated ground program `G P h` (which is tied to the implementation
by the L1/L5 correspondence of tools/rules_check.py), for every program of the typed rule fragment, every
look-ahead depth, every horizon:
  * `temp_guarded` / `stale_dead`: every instance of a re-grounded (temporary) look-ahead copy made at an
    earlier step `s < h` carries `__final(s)`, which is false at horizon `h`: what was concluded for the
    shorter trace never constrains the longer one;
  * `window_temp` / `window_perm`: at step `s` the temporary part of a depth-`n` constraint is instantiated
    exactly for `t ∈ (s-n, s]` and the permanent part exactly for `t = s-n` (root condition permitting): no
    position is missed and none is covered twice by permanent copies;
  * `assumptions_exact`: the assumptions falsify exactly the derivable `__future_*` atoms beyond `h`;
  * `future_head`: a `__future_*` atom in an answer set lies within the horizon and comes with its target
    (re-exported from C09).
The full semantic statement `C02_statement` (answer sets = temporal stable models for the future
fragment) is kept visible below; it is proved for the core fragment (C01_core) and validated for the
future fragment by the correspondence and the search, not yet by a theorem (partial).
-/
import TelProofs.CoreEquiv

set_option linter.unusedSimpArgs false
set_option linter.unusedVariables false

namespace TelProofs.C02
open TelSpec TelModel TelModel.Generated TelProofs

/-- the full statement for the future fragment (not proved here) -/
def C02_statement : Prop :=
  ∀ (P : TProg) (h : Nat), (∀ r ∈ P, ∀ l ∈ r.body, match l with | .tel _ _ => False | .del _ _ => False | _ => True) →
    (∀ r ∈ P, match r.head with | .tel _ => False | _ => True) →
    ∀ T : Trace, (∃ X, Stable (G P h) X ∧ TraceEq h (traceOf X) T) ↔ (∃ T', TSM h P T' ∧ TraceEq h T' T)

theorem mkRule_pos_mem {head : List GAtom} {c : Bool} {lits : List LitRes} {r : GRule} (a : GAtom)
    (h : mkRule head c lits = some r) (ha : LitRes.pos a ∈ lits) : a ∈ r.pos := by
  unfold mkRule at h
  split at h
  · cases h
  · cases h
    simp only [List.mem_filterMap]
    exact ⟨_, ha, rfl⟩

/-- an instance made with a guard carries the guard literal `__final(u)` -/
theorem instAt_guard (s : Nat) (t u : Int) (r : TRule) (r' : GRule) (h : instAt s t (some u) r = some r') :
    GAtom.final u ∈ r'.pos := by
  simp only [instAt] at h
  split at h
  all_goals first
    | (apply mkRule_pos_mem _ h; simp)
    | cases h

/-- temporary look-ahead copies are guarded by `__final(s)` of the step that grounded them -/
theorem temp_guarded (P : TProg) (s : Nat) (root : Root) (n : Nat) (t : Int) (r : TRule) (r' : GRule)
    (hmem : (r, true) ∈ rulesOfPart P ⟨root, .temp n⟩) (hi : instAt s t (some (s : Int)) r = some r') :
    GAtom.final (s : Int) ∈ r'.pos :=
  instAt_guard s t s r r' hi

/-- … hence dead at every later horizon: its body is false in every answer set -/
theorem stale_dead (P : TProg) (h s : Nat) (hs : s < h) (X : Interp) (hst : Stable (G P h) X) (r' : GRule)
    (hg : GAtom.final (s : Int) ∈ r'.pos) : r'.bodyHolds X X = false := by
  have hf : X (.final (s : Int)) = false := by
    cases hh : X (.final (s : Int))
    · rfl
    · have := (C09.final_exact P h X hst (s : Int)).mp hh; omega
  simp only [GRule.bodyHolds]
  have : r'.pos.all X = false := by
    cases hall : r'.pos.all X
    · rfl
    · have := List.all_eq_true.mp hall _ hg; rw [hf] at this; cases this
  rw [this]; rfl

/-- window of the re-grounded part: at step `s` it is instantiated exactly for `t = s - i`, `0 ≤ i < n` -/
theorem window_temp (P : TProg) (s : Nat) (root : Root) (n : Nat) (hk : (⟨root, .temp n⟩ : SPart) ∈ spartsOf P) (t : Int) :
    ((⟨root, .temp n⟩ : SPart), t) ∈ selected P s ↔
      ∃ i : Nat, i < n ∧ t = (s : Int) - i ∧ partCond root.name (s : Int) i = true := by
  simp only [selected, List.mem_flatMap, List.mem_filterMap]
  constructor
  · rintro ⟨p, _, i, hi, hsel⟩
    split at hsel
    · rename_i hc
      simp only [Option.some.injEq, Prod.mk.injEq] at hsel
      obtain ⟨rfl, rfl⟩ := hsel
      simp only [SPart.range, List.mem_map, List.mem_range] at hi
      obtain ⟨j, hj, rfl⟩ := hi
      exact ⟨j, hj, rfl, hc⟩
    · cases hsel
  · rintro ⟨i, hi, rfl, hc⟩
    refine ⟨_, hk, (i : Int), ?_, by simp [hc]⟩
    simp only [SPart.range, List.mem_map, List.mem_range]
    exact ⟨i, hi, rfl⟩

/-- window of the permanent part: at step `s` exactly `t = s - n` -/
theorem window_perm (P : TProg) (s : Nat) (root : Root) (n : Nat) (hk : (⟨root, .perm n⟩ : SPart) ∈ spartsOf P) (t : Int) :
    ((⟨root, .perm n⟩ : SPart), t) ∈ selected P s ↔ t = (s : Int) - n ∧ partCond root.name (s : Int) n = true := by
  simp only [selected, List.mem_flatMap, List.mem_filterMap]
  constructor
  · rintro ⟨p, _, i, hi, hsel⟩
    split at hsel
    · rename_i hc
      simp only [Option.some.injEq, Prod.mk.injEq] at hsel
      obtain ⟨rfl, rfl⟩ := hsel
      simp only [SPart.range, List.mem_singleton] at hi
      subst hi
      exact ⟨rfl, hc⟩
    · cases hsel
  · rintro ⟨rfl, hc⟩
    exact ⟨_, hk, (n : Int), by simp [SPart.range], by simp [hc]⟩

/-- every position `k ≤ h` of an always-rooted look-ahead constraint of depth `n` is covered at horizon `h`:
    by the permanent copy grounded at step `k+n` when `k+n ≤ h`, otherwise by the temporary copy grounded at
    step `h` itself (whose guard `__final(h)` is true) -/
theorem always_window_cover (P : TProg) (h n k : Nat) (hk : k ≤ h)
    (hp : (⟨.always, .perm n⟩ : SPart) ∈ spartsOf P) (ht : (⟨.always, .temp n⟩ : SPart) ∈ spartsOf P) :
    (k + n ≤ h → ((⟨.always, .perm n⟩ : SPart), (k : Int)) ∈ selected P (k + n)) ∧
    (h < k + n → ((⟨.always, .temp n⟩ : SPart), (k : Int)) ∈ selected P h) := by
  constructor
  · intro _
    apply (window_perm P (k+n) .always n hp _).mpr
    refine ⟨by simp, ?_⟩
    apply (TelProofs.partCond_spec _ _ _).mpr
    left; exact ⟨rfl, by simp⟩
  · intro hlt
    apply (window_temp P h .always n ht _).mpr
    refine ⟨h - k, by omega, by omega, ?_⟩
    apply (TelProofs.partCond_spec _ _ _).mpr
    left; exact ⟨rfl, by omega⟩

/-- the assumptions at horizon `h` are exactly the derivable `__future_*` atoms beyond `h`: none stale, none missing -/
theorem assumptions_exact (P : TProg) (h : Nat) (a : String) (n : Nat) (k : Int) :
    ({ head := [], pos := [.future a n k] } : GRule) ∈
        ((futureAtoms (accRules P h)).filterMap fun x => match x with
          | .future y m j => if assumeCond j (h : Int) then some ({ head := [], pos := [.future y m j] } : GRule) else none
          | _ => none) ↔
      (∃ r ∈ accRules P h, GAtom.future a n k ∈ r.head) ∧ (h : Int) < k := by
  simp only [List.mem_filterMap]
  constructor
  · rintro ⟨x, hx, hsel⟩
    split at hsel
    · rename_i y m j
      split at hsel
      · rename_i hc
        simp only [Option.some.injEq, GRule.mk.injEq, List.cons.injEq, GAtom.future.injEq, and_true, true_and] at hsel
        obtain ⟨rfl, rfl, rfl⟩ := hsel
        simp only [futureAtoms, List.mem_eraseDups, List.mem_flatMap, List.mem_filter] at hx
        obtain ⟨r, hr, hmem, _⟩ := hx
        refine ⟨⟨r, hr, hmem⟩, ?_⟩
        simpa [assumeCond] using hc
      · cases hsel
    · cases hsel
  · rintro ⟨⟨r, hr, hmem⟩, hk⟩
    refine ⟨.future a n k, ?_, ?_⟩
    · simp only [futureAtoms, List.mem_eraseDups, List.mem_flatMap, List.mem_filter]
      exact ⟨r, hr, hmem, trivial⟩
    · have : assumeCond k (h : Int) = true := by simpa [assumeCond] using hk
      simp [this]

/-- a `__future_*` atom of an answer set lies within the horizon and comes with its target atom -/
theorem future_head (P : TProg) (h : Nat) (X : Interp) (hs : Stable (G P h) X) (a : String) (n : Nat) (k : Int)
    (hx : X (.future a n k) = true) : k ≤ (h : Int) ∧ X (.user a k) = true :=
  C09.future_target P h X hs a n k hx

/-! ### non-vacuity -/

example : ((⟨.always, .temp 2⟩ : SPart) ∈ spartsOf [⟨.always, .falsum, [.atom .pos "a" 2, .atom .not "b" 1]⟩]) := by decide
example : ((⟨.always, .temp 2⟩ : SPart), (1 : Int)) ∈ selected [⟨.always, .falsum, [.atom .pos "a" 2, .atom .not "b" 1]⟩] 2 := by decide

end TelProofs.C02
