/-
C02 — future references obey the end of the trace while the trace is extended.

Proved here about the model's accumulated ground program `G P h` (which is tied to the implementation
by the L1/L5 correspondence of tools/rules_check.py), for every program of the typed rule fragment, every
look-ahead depth, every horizon:
  * `temp_guarded` / `stale_dead`: every instance of a re-grounded (temporary) look-ahead copy made at an
    earlier step `s < h` carries `__final(s)`, which is false at horizon `h`: what was concluded for the
    shorter trace never constrains the longer one;
  * `window_temp` / `window_perm`: at step `s` the temporary part of a depth-`n` constraint is instantiated
    exactly for `t ∈ (s-n, s]` and the permanent part exactly for `t = s-n` (root condition permitting): no
    position is missed and none is covered twice by permanent copies;
  * `assumptions_exact`: the assumptions falsify exactly the derivable `__future_*` atoms beyond `h`;
  * `future_head`: a `__future_*` atom in an answer set lies within the horizon and comes with its target
    (re-exported from C09).
  * `C02_future` / `C02_traces` (TelProofs/FullEquiv.lean): the full semantic statement — at every horizon
    `h` the answer sets of `G P h` are exactly the temporal stable models of `P` over traces of length `h+1`,
    for every program of the rule fragment with future heads of any depth and look-ahead integrity
    constraints / `not` / `not not` heads of any depth (`progFut`): a future head beyond the end is a
    contradiction, a future body literal beyond the end is false, and nothing concluded at a shorter trace
    survives (the theorem holds for *every* `h` of the incremental history).
`C02_statement` (the same statement without the side condition that normal rules have no future atoms in
their bodies and that `not`-heads carry `not`/`not not`) is kept visible; telingo rejects programs outside
`progFut` (C11), so the side condition excludes no accepted program of the rule fragment.
-/
import TelProofs.FullEquiv

set_option linter.unusedSimpArgs false
set_option linter.unusedVariables false

namespace TelProofs.C02
open TelSpec TelModel TelModel.Generated TelProofs

/-- the statement without the syntactic side condition `progFut` (not proved in this form: programs
    outside `progFut` are rejected by telingo before grounding) -/
def C02_statement : Prop :=
  ∀ (P : TProg) (h : Nat), (∀ r ∈ P, ∀ l ∈ r.body, match l with | .tel _ _ => False | .del _ _ => False | _ => True) →
    (∀ r ∈ P, match r.head with | .tel _ => False | _ => True) →
    ∀ T : Trace, (∃ X, Stable (G P h) X ∧ TraceEq h (traceOf X) T) ↔ (∃ T', TSM h P T' ∧ TraceEq h T' T)

theorem mkRule_pos_mem {head : List GAtom} {c : Bool} {lits : List LitRes} {r : GRule} (a : GAtom)
    (h : mkRule head c lits = some r) (ha : LitRes.pos a ∈ lits) : a ∈ r.pos := by
  unfold mkRule at h
  split at h
  · cases h
  · cases h
    simp only [List.mem_filterMap]
    exact ⟨_, ha, rfl⟩

/-- an instance made with a guard carries the guard literal `__final(u)` -/
theorem instAt_guard (s : Nat) (t u : Int) (r : TRule) (r' : GRule) (h : instAt s t (some u) r = some r') :
    GAtom.final u ∈ r'.pos := by
  simp only [instAt] at h
  split at h
  all_goals first
    | (apply mkRule_pos_mem _ h; simp)
    | cases h

/-- temporary look-ahead copies are guarded by `__final(s)` of the step that grounded them -/
theorem temp_guarded (P : TProg) (s : Nat) (root : Root) (n : Nat) (t : Int) (r : TRule) (r' : GRule)
    (hmem : (r, true) ∈ rulesOfPart P ⟨root, .temp n⟩) (hi : instAt s t (some (s : Int)) r = some r') :
    GAtom.final (s : Int) ∈ r'.pos :=
  instAt_guard s t s r r' hi

/-- … hence dead at every later horizon: its body is false in every answer set -/
theorem stale_dead (P : TProg) (h s : Nat) (hs : s < h) (X : Interp) (hst : Stable (G P h) X) (r' : GRule)
    (hg : GAtom.final (s : Int) ∈ r'.pos) : r'.bodyHolds X X = false := by
  have hf : X (.final (s : Int)) = false := by
    cases hh : X (.final (s : Int))
    · rfl
    · have := (C09.final_exact P h X hst (s : Int)).mp hh; omega
  simp only [GRule.bodyHolds]
  have : r'.pos.all X = false := by
    cases hall : r'.pos.all X
    · rfl
    · have := List.all_eq_true.mp hall _ hg; rw [hf] at this; cases this
  rw [this]; rfl

/-- window of the re-grounded part: at step `s` it is instantiated exactly for `t = s - i`, `0 ≤ i < n` -/
theorem window_temp (P : TProg) (s : Nat) (root : Root) (n : Nat) (hk : (⟨root, .temp n⟩ : SPart) ∈ spartsOf P) (t : Int) :
    ((⟨root, .temp n⟩ : SPart), t) ∈ selected P s ↔
      ∃ i : Nat, i < n ∧ t = (s : Int) - i ∧ partCond root.name (s : Int) i = true := by
  simp only [selected, List.mem_flatMap, List.mem_filterMap]
  constructor
  · rintro ⟨p, _, i, hi, hsel⟩
    split at hsel
    · rename_i hc
      simp only [Option.some.injEq, Prod.mk.injEq] at hsel
      obtain ⟨rfl, rfl⟩ := hsel
      simp only [SPart.range, List.mem_map, List.mem_range] at hi
      obtain ⟨j, hj, rfl⟩ := hi
      exact ⟨j, hj, rfl, hc⟩
    · cases hsel
  · rintro ⟨i, hi, rfl, hc⟩
    refine ⟨_, hk, (i : Int), ?_, by simp [hc]⟩
    simp only [SPart.range, List.mem_map, List.mem_range]
    exact ⟨i, hi, rfl⟩

/-- window of the permanent part: at step `s` exactly `t = s - n` -/
theorem window_perm (P : TProg) (s : Nat) (root : Root) (n : Nat) (hk : (⟨root, .perm n⟩ : SPart) ∈ spartsOf P) (t : Int) :
    ((⟨root, .perm n⟩ : SPart), t) ∈ selected P s ↔ t = (s : Int) - n ∧ partCond root.name (s : Int) n = true := by
  simp only [selected, List.mem_flatMap, List.mem_filterMap]
  constructor
  · rintro ⟨p, _, i, hi, hsel⟩
    split at hsel
    · rename_i hc
      simp only [Option.some.injEq, Prod.mk.injEq] at hsel
      obtain ⟨rfl, rfl⟩ := hsel
      simp only [SPart.range, List.mem_singleton] at hi
      subst hi
      exact ⟨rfl, hc⟩
    · cases hsel
  · rintro ⟨rfl, hc⟩
    exact ⟨_, hk, (n : Int), by simp [SPart.range], by simp [hc]⟩

/-- every position `k ≤ h` of an always-rooted look-ahead constraint of depth `n` is covered at horizon `h`:
    by the permanent copy grounded at step `k+n` when `k+n ≤ h`, otherwise by the temporary copy grounded at
    step `h` itself (whose guard `__final(h)` is true) -/
theorem always_window_cover (P : TProg) (h n k : Nat) (hk : k ≤ h)
    (hp : (⟨.always, .perm n⟩ : SPart) ∈ spartsOf P) (ht : (⟨.always, .temp n⟩ : SPart) ∈ spartsOf P) :
    (k + n ≤ h → ((⟨.always, .perm n⟩ : SPart), (k : Int)) ∈ selected P (k + n)) ∧
    (h < k + n → ((⟨.always, .temp n⟩ : SPart), (k : Int)) ∈ selected P h) := by
  constructor
  · intro _
    apply (window_perm P (k+n) .always n hp _).mpr
    refine ⟨by simp, ?_⟩
    apply (TelProofs.partCond_spec _ _ _).mpr
    left; exact ⟨rfl, by simp⟩
  · intro hlt
    apply (window_temp P h .always n ht _).mpr
    refine ⟨h - k, by omega, by omega, ?_⟩
    apply (TelProofs.partCond_spec _ _ _).mpr
    left; exact ⟨rfl, by omega⟩

/-- the assumptions at horizon `h` are exactly the derivable `__future_*` atoms beyond `h`: none stale, none missing -/
theorem assumptions_exact (P : TProg) (h : Nat) (a : String) (n : Nat) (k : Int) :
    ({ head := [], pos := [.future a n k] } : GRule) ∈
        ((futureAtoms (accRules P h)).filterMap fun x => match x with
          | .future y m j => if assumeCond j (h : Int) then some ({ head := [], pos := [.future y m j] } : GRule) else none
          | _ => none) ↔
      (∃ r ∈ accRules P h, GAtom.future a n k ∈ r.head) ∧ (h : Int) < k := by
  simp only [List.mem_filterMap]
  constructor
  · rintro ⟨x, hx, hsel⟩
    split at hsel
    · rename_i y m j
      split at hsel
      · rename_i hc
        simp only [Option.some.injEq, GRule.mk.injEq, List.cons.injEq, GAtom.future.injEq, and_true, true_and] at hsel
        obtain ⟨rfl, rfl, rfl⟩ := hsel
        simp only [futureAtoms, List.mem_eraseDups, List.mem_flatMap, List.mem_filter] at hx
        obtain ⟨r, hr, hmem, _⟩ := hx
        refine ⟨⟨r, hr, hmem⟩, ?_⟩
        simpa [assumeCond] using hc
      · cases hsel
    · cases hsel
  · rintro ⟨⟨r, hr, hmem⟩, hk⟩
    refine ⟨.future a n k, ?_, ?_⟩
    · simp only [futureAtoms, List.mem_eraseDups, List.mem_flatMap, List.mem_filter]
      exact ⟨r, hr, hmem, trivial⟩
    · have : assumeCond k (h : Int) = true := by simpa [assumeCond] using hk
      simp [this]

/-- a `__future_*` atom of an answer set lies within the horizon and comes with its target atom -/
theorem future_head (P : TProg) (h : Nat) (X : Interp) (hs : Stable (G P h) X) (a : String) (n : Nat) (k : Int)
    (hx : X (.future a n k) = true) : k ≤ (h : Int) ∧ X (.user a k) = true :=
  C09.future_target P h X hs a n k hx

/-- **C02** (semantic statement): for every program of the future fragment and every horizon, the stable
    models of the accumulated ground program are exactly the embeddings of the temporal stable models;
    the auxiliary `__future_*` atoms are exactly those derived by a rule whose body holds. -/
theorem C02_future (P : TProg) (hf : progFut P = true) (h : Nat) :
    (∀ X, Stable (G P h) X → TSM h P (traceOf X) ∧ X = embedF P h (traceOf X) (traceOf X)) ∧
    (∀ T, TSM h P T → Stable (G P h) (embedF P h T T)) :=
  full_stable_iff P hf h

/-- projected to user atoms: the traces of the answer sets at horizon `h` are the temporal stable models -/
theorem C02_traces (P : TProg) (hf : progFut P = true) (h : Nat) (T : Trace) :
    (∃ X, Stable (G P h) X ∧ TraceEq h (traceOf X) T) ↔ (∃ T', TSM h P T' ∧ TraceEq h T' T) := by
  constructor
  · rintro ⟨X, hs, heq⟩
    exact ⟨traceOf X, ((C02_future P hf h).1 X hs).1, heq⟩
  · rintro ⟨T', hT, heq⟩
    refine ⟨embedF P h T' T', (C02_future P hf h).2 T' hT, ?_⟩
    intro k hk a
    have : traceOf (embedF P h T' T') k a = T' k a := by
      simp [traceOf, embedF, embed, hk]
    rw [this]
    exact heq k hk a

/-- the specification side of the end-of-trace reading: a future head that points beyond the last state
    is falsity, a future body atom beyond the last state is false -/
theorem beyond_end_false (h : Nat) (W : Trace) (a : String) (k n : Nat) (hk : h < k + n) :
    atPos h W a ((k : Int) + n) = false := by
  unfold atPos
  have : ¬ (0 ≤ (k : Int) + n ∧ (k : Int) + n ≤ (h : Int)) := by omega
  simp [this]

/-- core programs are in the future fragment: C01 is the special case without look-ahead -/
theorem core_sub_fut (P : TProg) (hc : progCore P = true) : progFut P = true := by
  simp only [progFut, progCore, List.all_eq_true] at hc ⊢
  intro r hr
  have := hc r hr
  simp only [ruleCore, Bool.and_eq_true] at this
  unfold ruleFut
  cases hh : r.head with
  | atom a n => exact this.2
  | disj as => exact this.2
  | choice as => exact this.2
  | falsum =>
    simp only [List.all_eq_true] at this ⊢
    exact fun l hl => litCore_plain (this.2 l hl)
  | nlit sg a n => rw [hh] at this; simp [headCore] at this
  | tel f => rw [hh] at this; simp [headCore] at this

/-! ### non-vacuity -/

/-- future heads of depth 1 and 2, a look-ahead constraint of depth 2, `not p'` and `not not p''` heads, a final-part
    constraint are all inside the fragment -/
example : progFut [⟨.initial, .choice ["a", "b"], []⟩,
                   ⟨.always, .atom "a" 1, [.atom .pos "b" 0, .atom .not "a" (-1)]⟩,
                   ⟨.dynamic, .atom "b" 2, [.atom .pos "a" 0]⟩,
                   ⟨.always, .falsum, [.atom .pos "a" 2, .atom .not "b" 1]⟩,
                   ⟨.always, .nlit .not "b" 1, [.atom .pos "a" 0]⟩,
                   ⟨.dynamic, .nlit .notnot "a" 2, [.atom .pos "b" (-1)]⟩,
                   ⟨.final, .falsum, [.atom .not "a" 0]⟩] = true := by decide

example : ((⟨.always, .temp 2⟩ : SPart) ∈ spartsOf [⟨.always, .falsum, [.atom .pos "a" 2, .atom .not "b" 1]⟩]) := by decide
example : ((⟨.always, .temp 2⟩ : SPart), (1 : Int)) ∈ selected [⟨.always, .falsum, [.atom .pos "a" 2, .atom .not "b" 1]⟩] 2 := by decide

end TelProofs.C02
