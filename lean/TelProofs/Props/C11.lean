/-
C11 — unsupported placements of temporal constructs are rejected, all others accepted.

  * `flags_table`    at every syntactic position the flag expressions regenerated from `visit_SymbolicAtom`
                     (E7), applied to the traversal state of that position, say exactly what the documentation
                     says: future atoms fail unless (normal head ∨ inside a constraint); past / initially atoms
                     fail exactly in positive head positions
  * `accept_regular` `__get_param` on a name `'^l core '^t`: the shift is `t - l`; rejected iff (fail_future ∧
                     t > l) ∨ (fail_past ∧ t < l); otherwise accepted, renamed to `__future_core` iff future and
                     replace_future
  * `prime_uniform`  adding one prime at both ends changes nothing (`'p''` = `p'`, `''p'` = `'p`)
  * `reject_iff`     the two combined: rejection exactly for the documented placements
  * `theory_guard`   `&tel` / `&del` body atoms are rejected exactly in a positive body literal of a non-constraint
  * `element_terms_guard`  a theory element of a body `&tel` or a `&del` atom is rejected exactly if it has not exactly one term (E13)
  * `flags_from_classification` / `classification_spec`  the `constraint` and `normal` columns of the position table are the
                     values of `is_constraint` / `is_normal` (E8, regenerated from the source) on the statement the position
                     lives in
The `head` column of `Position.flags` (the traversal state per position) and the statement shape per position are
hand-transcribed and validated against the real `transform` on the full position × atom-form grid (every run), in the always
and the final part.
-/
import TelProofs.RejectProofs

set_option linter.unusedSimpArgs false

namespace TelProofs.C11
open TelSpec TelModel TelModel.Generated TelProofs

theorem flags_table (pos : Position) :
    failFuture pos.flags.head pos.flags.constraint pos.flags.normal = !(pos.isNormalHead || pos.inConstraint) ∧
    failPast pos.flags.head pos.flags.constraint pos.flags.normal = pos.isPositiveHead ∧
    replaceFuture pos.flags.head pos.flags.constraint pos.flags.normal = pos.isPositiveHead := by
  cases pos <;> decide

/-- the `constraint` and `normal` columns of the position table are what `is_constraint` / `is_normal` (E8, regenerated
    from transformers/transformer.py; `visit_Rule` sets the flags from them) say about the statement the position lives in;
    outside rules the flags keep their reset value `false` -/
theorem flags_from_classification (pos : Position) :
    pos.flags.constraint = pos.stmt.isConstraint ∧ pos.flags.normal = pos.stmt.isNormal := by
  cases pos <;> decide

/-- what the two classifiers mean: a constraint is a rule whose head is the literal `#false` or a literal with a sign; a
    normal rule is a rule whose head is a positive symbolic literal — never both -/
theorem classification_spec (s : StmtShape) :
    s.isConstraint = (s.isRule && s.headIsLiteral && ((s.atomIsBoolConst && !s.atomValue) || !s.signNone)) ∧
    s.isNormal = (s.isRule && s.headIsLiteral && s.signNone && s.atomIsSymbolic) ∧
    (s.atomIsBoolConst && s.atomIsSymbolic = false → (s.isConstraint && s.isNormal) = false) := by
  obtain ⟨a, b, c, d, e, f⟩ := s
  cases a <;> cases b <;> cases c <;> cases d <;> cases e <;> cases f <;> decide

theorem theory_guard (negated constraintRule : Bool) :
    telBodyAccepted negated constraintRule = (negated || constraintRule) ∧
    delBodyAccepted negated constraintRule = (negated || constraintRule) := by
  cases negated <;> cases constraintRule <;> decide

/-- a theory element is rejected (with a RuntimeError) exactly if it does not carry exactly one term — in a body `&tel` atom
    and in a `&del` atom alike (E13, regenerated from `visit_TheoryAtom`) -/
theorem element_terms_guard (n : Nat) :
    telElemRejected (n : Int) = (n != 1) ∧ delElemRejected (n : Int) = (n != 1) := by
  unfold telElemRejected delElemRejected
  -- whatever equivalent spelling of the test is regenerated (`!=`, `not … ==`, `> 1 or < 1`): as propositions over the integers
  constructor <;> (rw [Bool.eq_iff_iff]; simp; try omega)

/-- the core is not an initially / finally form: it does not start with a single `_` nor end with one -/
def PlainCore (core : List Char) : Prop :=
  (startsWithStr core ['_'] && !(startsWithStr core ['_', '_'])) = false ∧
  (endsWithStr core ['_'] && !(endsWithStr core ['_', '_'])) = false

/-- `__get_param` on `'^l core '^t` -/
theorem accept_regular (l t : Nat) (core : List Char) (hc : CleanCore core) (hp : PlainCore core) (rf ff fp : Bool) :
    getParamL (primes l ++ core ++ primes t) rf ff fp =
      if ff && decide ((t : Int) - (l : Int) > 0) then .error (.runtime "future atoms not supported in this context")
      else if fp && decide ((t : Int) - (l : Int) < 0) then .error (.runtime "past atoms not supported in this context")
      else .ok { name := (if decide ((t : Int) - (l : Int) > 0) && rf then futurePrefix else "") ++ String.ofList core,
                 shift := (t : Int) - (l : Int), initially := false,
                 future := decide ((t : Int) - (l : Int) > 0) && rf } := by
  unfold getParamL
  have hs : -(leadingPrimes (primes l ++ core ++ primes t) : Int) +
      (((primes l ++ core ++ primes t).length : Int) - (core.length : Int)) +
      -(leadingPrimes (primes l ++ core ++ primes t) : Int) = (t : Int) - (l : Int) := by
    have := shift_spec l t core hc
    rw [stripPrimes_spec l t core hc] at this
    exact this
  simp only [stripPrimes_spec l t core hc, hs, hp.1, hp.2, Bool.false_and, Bool.false_eq_true,
    if_false, Bool.or_false]
  rfl

/-- prime arithmetic is uniform: one more prime on both sides means the same atom -/
theorem prime_uniform (l t : Nat) (core : List Char) (hc : CleanCore core) (hp : PlainCore core) (rf ff fp : Bool) :
    getParamL (primes (l+1) ++ core ++ primes (t+1)) rf ff fp = getParamL (primes l ++ core ++ primes t) rf ff fp := by
  rw [accept_regular (l+1) (t+1) core hc hp, accept_regular l t core hc hp]
  have : ((t + 1 : Nat) : Int) - ((l + 1 : Nat) : Int) = (t : Int) - (l : Int) := by omega
  rw [this]

/-- **rejection exactly for the documented placements**: an atom `'^l core '^t` at a position is rejected iff it
    is a future atom (t > l) outside a normal-rule head or constraint, or a past atom (t < l) in a positive head
    position; otherwise it is accepted with time offset `t - l` -/
theorem reject_iff (pos : Position) (l t : Nat) (core : List Char) (hc : CleanCore core) (hp : PlainCore core) :
    (∃ r, getParamL (primes l ++ core ++ primes t)
        (replaceFuture pos.flags.head pos.flags.constraint pos.flags.normal)
        (failFuture pos.flags.head pos.flags.constraint pos.flags.normal)
        (failPast pos.flags.head pos.flags.constraint pos.flags.normal) = .ok r ∧ r.shift = (t : Int) - (l : Int)) ↔
    ¬ ((l < t ∧ ¬ (pos.isNormalHead = true ∨ pos.inConstraint = true)) ∨ (t < l ∧ pos.isPositiveHead = true)) := by
  obtain ⟨h1, h2, _⟩ := flags_table pos
  rw [accept_regular l t core hc hp, h1, h2]
  by_cases hf : l < t
  · have e1 : decide ((t : Int) - (l : Int) > 0) = true := by simp; omega
    have e2 : decide ((t : Int) - (l : Int) < 0) = false := by simp; omega
    cases hn : (pos.isNormalHead || pos.inConstraint)
    · simp only [hn, Bool.not_false, e1, Bool.and_self, if_true]
      have : ¬ (pos.isNormalHead = true ∨ pos.inConstraint = true) := by
        intro hh; rcases hh with hh | hh <;> simp [hh] at hn
      simp [hf, this]
    · simp only [hn, Bool.not_true, Bool.false_and, Bool.false_eq_true, if_false, e2, Bool.and_false]
      have : (pos.isNormalHead = true ∨ pos.inConstraint = true) := by
        simp only [Bool.or_eq_true] at hn; exact hn
      constructor
      · intro _; intro hcon; rcases hcon with ⟨_, hcon⟩ | ⟨hcon, _⟩
        · exact hcon this
        · omega
      · intro _; exact ⟨_, rfl, rfl⟩
  · by_cases hpast : t < l
    · have e1 : decide ((t : Int) - (l : Int) > 0) = false := by simp; omega
      have e2 : decide ((t : Int) - (l : Int) < 0) = true := by simp; omega
      simp only [e1, Bool.and_false, Bool.false_eq_true, if_false, e2, Bool.and_true]
      cases hh : pos.isPositiveHead
      · simp [hf, hpast]
      · simp [hf, hpast]
    · have e1 : decide ((t : Int) - (l : Int) > 0) = false := by simp; omega
      have e2 : decide ((t : Int) - (l : Int) < 0) = false := by simp; omega
      simp [e1, e2, hf, hpast]

/-- the same, against the specification function `TelSpec.docAccepts` -/
theorem accepts_iff_doc (pos : Position) (l t : Nat) (core : List Char) (hc : CleanCore core) (hp : PlainCore core) :
    (∃ r, getParamL (primes l ++ core ++ primes t)
        (replaceFuture pos.flags.head pos.flags.constraint pos.flags.normal)
        (failFuture pos.flags.head pos.flags.constraint pos.flags.normal)
        (failPast pos.flags.head pos.flags.constraint pos.flags.normal) = .ok r ∧ r.shift = (t : Int) - (l : Int)) ↔
    docAccepts pos l t = true := by
  rw [reject_iff pos l t core hc hp]
  unfold docAccepts
  by_cases h1 : l < t <;> by_cases h2 : t < l <;>
    cases pos.isNormalHead <;> cases pos.inConstraint <;> cases pos.isPositiveHead <;> simp [h1, h2]

/-! ### non-vacuity -/
example : CleanCore "p".toList ∧ PlainCore "p".toList := by
  refine ⟨⟨by decide, ?_, ?_⟩, by decide, by decide⟩ <;> (intro c h; simp at h; subst h; decide)
example : CleanCore "__aux".toList ∧ PlainCore "__aux".toList := by
  refine ⟨⟨by decide, ?_, ?_⟩, by decide, by decide⟩ <;> (intro c h; simp at h; subst h; decide)
/-- `''p'` at a body position means `'p` -/
example : getParam "''p'" false false false = getParam "'p" false false false := by rfl
example : (acceptsAtom .disjElem "p'").toBool = false ∧ (acceptsAtom .normalHead "p'").toBool = true ∧
    (acceptsAtom .consLit "p''").toBool = true ∧ (acceptsAtom .choiceElem "'p").toBool = false := by decide

end TelProofs.C11
