/-
Existence: the LTL_f semantics itself solves the one-step equations on all temporal formulas and all
states of the trace — so the hypotheses of `tel_unique` are satisfiable for every formula, trace and
horizon, and mentioning a formula can neither destroy nor duplicate solutions (C13, C03 non-vacuity).
-/
import TelProofs.Tseitin

set_option linter.unusedSimpArgs false

namespace TelProofs
open TelSpec TelModel

theorem binExpr_refs_sub (op : String) (a b : BExpr) : ∀ p ∈ (binExpr op a b).refs, p ∈ a.refs ++ b.refs := by
  intro p hp
  unfold binExpr at hp
  split at hp
  · simpa [BExpr.refs] using hp
  · split at hp
    · simpa [BExpr.refs] using hp
    · split at hp
      · simpa [BExpr.refs] using hp
      · split at hp
        · simpa [BExpr.refs] using hp
        · split at hp
          · simpa [BExpr.refs] using hp
          · simp [BExpr.refs] at hp

theorem telStep_refs (d : Bool) (l : Option BExpr) (r pre : BExpr) :
    ∀ p ∈ (telStep d l r pre).refs, p ∈ r.refs ∨ p ∈ pre.refs ∨ ∃ l', l = some l' ∧ p ∈ l'.refs := by
  intro p hp
  cases d <;> cases l <;> simp only [telStep, BExpr.refs, List.mem_append] at hp
  · rcases hp with h | h
    · exact Or.inl h
    · exact Or.inr (Or.inl h)
  · rcases hp with h | h | h
    · exact Or.inl h
    · exact Or.inr (Or.inr ⟨_, rfl, h⟩)
    · exact Or.inr (Or.inl h)
  · rcases hp with h | h
    · exact Or.inl h
    · exact Or.inr (Or.inl h)
  · rcases hp with h | h | h
    · exact Or.inl h
    · exact Or.inr (Or.inr ⟨_, rfl, h⟩)
    · exact Or.inr (Or.inl h)

/-- the semantics is a solution of the equation system on all temporal formulas -/
theorem sem_sys (h : Nat) (tr : Trace) (lv : Int → Bool) :
    Sys h tr lv (fun f k => f.sem h tr lv k) (fun f k => isTel f = true ∧ k ≤ h) := by
  refine ⟨fun f k hS => hS.2, ?_, ?_⟩
  · -- closed
    intro f k ⟨ht, hk⟩ p hp
    cases f with
    | atom n a p' => simp [eqn, BExpr.refs] at hp
    | numLit l => simp [eqn, BExpr.refs] at hp
    | const b => simp [eqn, BExpr.refs] at hp
    | neg g => simp only [eqn, BExpr.refs, List.mem_singleton] at hp; subst hp; exact ⟨by simpa [isTel] using ht, hk⟩
    | bin op l r =>
      simp only [isTel, Bool.and_eq_true] at ht
      have := binExpr_refs_sub op (.ref l k) (.ref r k) p (by simpa [eqn] using hp)
      simp only [BExpr.refs, List.mem_append, List.mem_singleton] at this
      rcases this with rfl | rfl
      · exact ⟨ht.1, hk⟩
      · exact ⟨ht.2, hk⟩
    | prev g n w =>
      simp only [eqn] at hp
      split at hp
      · simp only [BExpr.refs, List.mem_singleton] at hp; subst hp
        exact ⟨by simpa [isTel] using ht, by omega⟩
      · simp [BExpr.refs] at hp
    | initially g =>
      simp only [eqn, BExpr.refs, List.mem_singleton] at hp; subst hp
      exact ⟨by simpa [isTel] using ht, Nat.zero_le _⟩
    | next g n w =>
      simp only [eqn] at hp
      split at hp
      · rename_i hkn
        simp only [BExpr.refs, List.mem_singleton] at hp; subst hp
        exact ⟨by simpa [isTel] using ht, hkn⟩
      · simp [BExpr.refs] at hp
    | telP2 d l r =>
      simp only [isTel, Bool.and_eq_true] at ht
      simp only [eqn] at hp
      split at hp
      · simp only [BExpr.refs, List.mem_singleton] at hp; subst hp; exact ⟨ht.2, Nat.zero_le _⟩
      · rcases telStep_refs d _ _ _ p hp with h1 | h1 | ⟨l', hl, h1⟩
        · simp only [BExpr.refs, List.mem_singleton] at h1; subst h1; exact ⟨ht.2, hk⟩
        · simp only [BExpr.refs, List.mem_singleton] at h1; subst h1
          exact ⟨by simp [isTel, ht.1, ht.2], by omega⟩
        · cases hl; simp only [BExpr.refs, List.mem_singleton] at h1; subst h1; exact ⟨ht.1, hk⟩
    | telP1 d r =>
      simp only [isTel] at ht
      simp only [eqn] at hp
      split at hp
      · simp only [BExpr.refs, List.mem_singleton] at hp; subst hp; exact ⟨ht, Nat.zero_le _⟩
      · rcases telStep_refs d _ _ _ p hp with h1 | h1 | ⟨l', hl, h1⟩
        · simp only [BExpr.refs, List.mem_singleton] at h1; subst h1; exact ⟨ht, hk⟩
        · simp only [BExpr.refs, List.mem_singleton] at h1; subst h1
          exact ⟨by simp [isTel, ht], by omega⟩
        · cases hl
    | telN2 d l r =>
      simp only [isTel, Bool.and_eq_true] at ht
      simp only [eqn] at hp
      rcases telStep_refs d _ _ _ p hp with h1 | h1 | ⟨l', hl, h1⟩
      · simp only [BExpr.refs, List.mem_singleton] at h1; subst h1; exact ⟨ht.2, hk⟩
      · simp only [BExpr.refs, List.mem_singleton] at h1; subst h1
        exact ⟨by simp [isTel, ht.1, ht.2], hk⟩
      · cases hl; simp only [BExpr.refs, List.mem_singleton] at h1; subst h1; exact ⟨ht.1, hk⟩
    | telN1 d r =>
      simp only [isTel] at ht
      simp only [eqn] at hp
      rcases telStep_refs d _ _ _ p hp with h1 | h1 | ⟨l', hl, h1⟩
      · simp only [BExpr.refs, List.mem_singleton] at h1; subst h1; exact ⟨ht, hk⟩
      · simp only [BExpr.refs, List.mem_singleton] at h1; subst h1
        exact ⟨by simp [isTel, ht], hk⟩
      · cases hl
    | dia p' g => simp [isTel] at ht
    | box p' g => simp [isTel] at ht
  · -- solves
    intro f k ⟨ht, hk⟩
    cases f with
    | atom n a p' => rfl
    | numLit l => rfl
    | const b => rfl
    | neg g => rfl
    | bin op l r => simp only [eqn, binExpr_eval, BExpr.eval, BForm.sem]
    | prev g n w => simp only [eqn, BForm.sem]; split <;> rfl
    | initially g => rfl
    | next g n w => simp only [eqn, BForm.sem]; split <;> rfl
    | telP2 d l r =>
      cases k with
      | zero =>
        simp only [eqn, if_true, BExpr.eval]
        rw [sem_telP2_eq]
        cases d <;> simp [sinceB_zero, triggerB_zero]
      | succ k =>
        have hne : ¬ (k + 1 = 0) := by omega
        simp only [eqn, hne, if_false, telStep_eval_some, BExpr.eval, Nat.add_sub_cancel]
        rw [sem_telP2_eq, sem_telP2_eq]
        cases d <;> simp [sinceB_succ, triggerB_succ]
    | telP1 d r =>
      cases k with
      | zero =>
        simp only [eqn, if_true, BExpr.eval]
        rw [sem_telP1_eq]
        cases d <;> simp [evPB_zero, alPB_zero]
      | succ k =>
        have hne : ¬ (k + 1 = 0) := by omega
        simp only [eqn, hne, if_false, telStep_eval_none, BExpr.eval, Nat.add_sub_cancel]
        rw [sem_telP1_eq, sem_telP1_eq]
        cases d <;> simp [evPB_succ, alPB_succ]
    | telN2 d l r =>
      simp only [eqn, telStep_eval_some, BExpr.eval]
      rw [sem_telN2_eq]
      simp only [BForm.sem]
      rw [sem_telN2_eq]
      cases d
      · simp only [Bool.false_eq_true, if_false]
        rw [untilB_unfold h _ _ k hk]
      · simp only [if_true]
        rw [releaseB_unfold h _ _ k hk]
    | telN1 d r =>
      simp only [eqn, telStep_eval_none, BExpr.eval]
      rw [sem_telN1_eq]
      simp only [BForm.sem]
      rw [sem_telN1_eq]
      cases d
      · simp only [Bool.false_eq_true, if_false]
        rw [evFB_unfold h _ k hk]
      · simp only [if_true]
        rw [alFB_unfold h _ k hk]
    | dia p' g => simp [isTel] at ht
    | box p' g => simp [isTel] at ht

end TelProofs
