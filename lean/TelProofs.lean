import TelProofs.Loop
import TelProofs.Props.C08
import TelProofs.Props.C03
import TelProofs.Props.C05
import TelProofs.Props.C09
import TelProofs.Props.C01
import TelProofs.Props.C02
import TelProofs.Props.C04
