import TelProofs.Loop
import TelProofs.Props.C08
import TelProofs.Props.C03
import TelProofs.Props.C05
