import TelProofs.Loop
import TelProofs.Props.C08
