import TelSpec
import TelModel.Py
import TelModel.Generated.Imain
import TelModel.Generated.Tables
import TelModel.Generated.Flags
import TelModel.Imain
