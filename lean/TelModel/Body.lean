/-
Model of `telingo/theory/body.py` + `path.py`: the formula classes, their string
representations (`_rep`, the identity used by `Theory.add_formula`), and the
constructors `create_atom`, `create_formula`, `create_path`,
`create_dynamic_formula`, `translate_conjunction`, `translate_elements`.
-/
import TelModel.Term

namespace TelModel
open TelSpec Generated

/-- argument of a `CheckPath`: an `Atom` or a `BooleanConstant` -/
inductive PTest where
  | atom (name : String) (args : List Sym) (positive : Bool)
  | const (b : Bool)
  deriving Repr, Inhabited

/-- `telingo/theory/path.py` -/
inductive Path where
  | skip
  | check (t : PTest)
  | choice (l r : Path)
  | seq (l r : Path)
  | star (p : Path)
  deriving Repr, Inhabited

/-- the `BodyFormula` classes.  `telP2 true l r` is `l <* r` (trigger), `telP2 false` is since;
    `telN2 true l r` is `l >* r` (release), `telN2 false` until; the `…1` forms have `lhs = None`. -/
inductive BForm where
  | atom (name : String) (args : List Sym) (positive : Bool)
  | numLit (lit : Int)
  | const (b : Bool)
  | neg (f : BForm)
  | bin (op : String) (l r : BForm)
  | prev (f : BForm) (n : Nat) (weak : Bool)
  | initially (f : BForm)
  | next (f : BForm) (n : Nat) (weak : Bool)
  | telP2 (dual : Bool) (l r : BForm)
  | telP1 (dual : Bool) (r : BForm)
  | telN2 (dual : Bool) (l r : BForm)
  | telN1 (dual : Bool) (r : BForm)
  | dia (p : Path) (f : BForm)
  | box (p : Path) (f : BForm)
  deriving Repr, Inhabited

def atomRep (name : String) (args : List Sym) (positive : Bool) : String :=
  "(" ++ (if positive then "" else "-") ++ name ++ "(" ++ symsToStr args ++ "))"

def PTest.rep : PTest → String
  | .atom n a p => atomRep n a p
  | .const b => if b then "(&true)" else "(&false)"

def Path.rep : Path → String
  | .skip => "(&skip)"
  | .check t => "(" ++ t.rep ++ "?)"
  | .choice l r => "(" ++ l.rep ++ "+" ++ r.rep ++ ")"
  | .seq l r => "(" ++ l.rep ++ ";;" ++ r.rep ++ ")"
  | .star p => "(" ++ p.rep ++ "*)"

def BForm.rep : BForm → String
  | .atom n a p => atomRep n a p
  | .numLit l => toString l        -- `BodyFormula.__init__(self, literal)`: the rep is the integer itself
  | .const b => if b then "(&true)" else "(&false)"
  | .neg f => "(~" ++ f.rep ++ ")"
  | .bin op l r => "(" ++ l.rep ++ op ++ r.rep ++ ")"
  | .prev f n w => "(" ++ toString n ++ (if w then "<:" else "<") ++ f.rep ++ ")"
  | .initially f => "(<<" ++ f.rep ++ ")"
  | .next f n w => "(" ++ toString n ++ (if w then ">:" else ">") ++ f.rep ++ ")"
  | .telP2 d l r => "(" ++ l.rep ++ (if d then "<*" else "<?") ++ r.rep ++ ")"
  | .telP1 d r => "(" ++ (if d then "<*" else "<?") ++ r.rep ++ ")"
  | .telN2 d l r => "(" ++ l.rep ++ (if d then ">*" else ">?") ++ r.rep ++ ")"
  | .telN1 d r => "(" ++ (if d then ">*" else ">?") ++ r.rep ++ ")"
  | .dia p f => "(<" ++ p.rep ++ ">" ++ f.rep ++ ")"
  | .box p f => "([" ++ p.rep ++ "]" ++ f.rep ++ ")"

/-- all operator names (`g_all_operators`) -/
def allOperators : List String :=
  binaryOperators ++ unaryOperators ++ arithmeticOperators ++ telOperators ++ delOperators ++
  pathUnaryOperators ++ pathBinaryOperators

/-- `Atom.__init__` checks -/
def mkAtom (name : String) (args : List Sym) (positive : Bool) : Py BForm :=
  if startsWithChar name '\'' then throw (.runtime "temporal formulas use < instead of leading primes")
  else if endsWithChar name '\'' then throw (.runtime "temporal formulas use > instead of trailing primes")
  else pure (.atom name args positive)

/-- `create_atom(rep, add_formula, positive)` -/
def createAtom : TTerm → Bool → Py BForm
  | .sym name, positive => mkAtom name [] positive
  | .fn name args, positive =>
      match name, args with
      | "-", [a] => createAtom a (!positive)
      | _, _ =>
        if !(allOperators.contains name) then do
          let xs ← createSymbols args
          mkAtom name xs positive
        else throw (.runtime "invalid atom")
  | _, _ => throw (.runtime "invalid atom")

/-- the n-fold prefix: `create_number`, negative values rejected -/
def createOffset (t : TTerm) : Py Nat := do
  let n ← createNumber t
  if n < 0 then throw (.runtime "number expected") else pure n.toNat

/-- `&x` keyword argument: the term must be a Symbol -/
def kwName : TTerm → Option String
  | .sym s => some s
  | _ => none

/-- `create_formula(rep, add_formula)` -/
def createFormula : TTerm → Py BForm
  | .sym name => createAtom (.sym name) true
  | .fn name [a] =>
      if unaryOperators.contains name then do
        let f ← createFormula a
        pure (.neg f)
      else if telOperators.contains name then do
        let rhs ← createFormula a
        if name == "<" || name == "<:" then pure (.prev rhs 1 (name == "<:"))
        else if name == ">" || name == ">:" then pure (.next rhs 1 (name == ">:"))
        else if name == "<;" || name == "<:;" then throw .attributeError      -- Previous(None, …): lhs._rep
        else if name == "<*" then pure (.telP1 true rhs)
        else if name == "<?" then pure (.telP1 false rhs)
        else if name == "<<" then pure (.initially rhs)
        else if name == ";>" || name == ";>:" then throw .attributeError      -- BooleanFormula("&", None, …)
        else if name == ">*" then pure (.telN1 true rhs)
        else if name == ">?" then pure (.telN1 false rhs)
        else if name == ">>" then pure (.telN1 true (.bin "|" (.neg (.atom "__final" [] true)) rhs))
        else throw .assertionError
      else if name == "&" then
        match kwName a with
        | some "initial" => pure (.atom "__initial" [] true)
        | some "final" => pure (.atom "__final" [] true)
        | some "true" => pure (.const true)
        | some "false" => pure (.const false)
        | some _ => throw (.runtime "unknown identifier")
        | none => throw (.runtime "invalid temporal formula")
      else createAtom (.fn name [a]) true
  | .fn name [a, b] =>
      if binaryOperators.contains name then do
        let l ← createFormula a
        let r ← createFormula b
        pure (.bin name l r)
      else if telOperators.contains name then do
        let rhs ← createFormula b
        if name == "<" || name == "<:" then do
          let n ← createOffset a
          pure (if n == 0 then rhs else .prev rhs n (name == "<:"))
        else if name == ">" || name == ">:" then do
          let n ← createOffset a
          pure (if n == 0 then rhs else .next rhs n (name == ">:"))
        else do
          let lhs ← createFormula a
          if name == "<;" || name == "<:;" then pure (.bin "&" (.prev lhs 1 (name == "<:;")) rhs)
          else if name == "<*" then pure (.telP2 true lhs rhs)
          else if name == "<?" then pure (.telP2 false lhs rhs)
          else if name == "<<" then pure (.initially rhs)
          else if name == ";>" || name == ";>:" then pure (.bin "&" lhs (.next rhs 1 (name == ";>:")))
          else if name == ">*" then pure (.telN2 true lhs rhs)
          else if name == ">?" then pure (.telN2 false lhs rhs)
          else if name == ">>" then pure (.telN1 true (.bin "|" (.neg (.atom "__final" [] true)) rhs))
          else throw .assertionError
      else if name == "&" then
        match kwName a with
        | some "initial" => pure (.atom "__initial" [] true)
        | some "final" => pure (.atom "__final" [] true)
        | some "true" => pure (.const true)
        | some "false" => pure (.const false)
        | some _ => throw (.runtime "unknown identifier")
        | none => throw (.runtime "invalid temporal formula")
      else createAtom (.fn name [a, b]) true
  | .fn name args =>
      -- other arities cannot carry an operator name (operators are unary or binary in theory terms)
      if telOperators.contains name then throw .indexError
      else if name == "&" then throw .indexError
      else createAtom (.fn name args) true
  | _ => throw (.runtime "invalid temporal formula")

/-! ### dynamic formulas -/

def atomToTest : BForm → Py PTest
  | .atom n a p => pure (.atom n a p)
  | .const b => pure (.const b)
  | _ => throw .attributeError

/-- `create_path(rep, add_formula, check)`; with `check` the result is the test formula -/
def createPathCheck : TTerm → Py PTest
  | .sym name => do atomToTest (← createAtom (.sym name) true)
  | .fn name args =>
      if pathBinaryOperators.contains name then throw (.runtime "invalid dynamic formula")
      else if pathUnaryOperators.contains name then throw (.runtime "invalid dynamic formula")
      else if name == "&" then
        match args with
        | a :: _ =>
          match kwName a with
          | some "true" => pure (.const true)
          | some "false" => pure (.const false)
          | some _ => throw (.runtime "unknown identifier")
          | none => throw (.runtime "invalid dynamic formula")
        | [] => throw .indexError
      else do atomToTest (← createAtom (.fn name args) true)
  | _ => throw (.runtime "invalid dynamic formula")

def createPath : TTerm → Py Path
  | .sym name => do
      let t ← atomToTest (← createAtom (.sym name) true)
      pure (.seq (.check t) .skip)
  | .fn name [a] =>
      if pathBinaryOperators.contains name then throw .indexError
      else if pathUnaryOperators.contains name then
        if name == "?" then do
          let t ← createPathCheck a
          pure (.check t)
        else if name == "*" then do
          let p ← createPath a
          pure (.star p)
        else throw .assertionError
      else if name == "&" then
        match kwName a with
        | some "true" => pure .skip
        | some _ => throw (.runtime "unknown identifier")
        | none => throw (.runtime "invalid dynamic formula")
      else do
        let t ← atomToTest (← createAtom (.fn name [a]) true)
        pure (.seq (.check t) .skip)
  | .fn name [a, b] =>
      if pathBinaryOperators.contains name then do
        let l ← createPath a
        let r ← createPath b
        if name == "+" then pure (.choice l r)
        else if name == ";;" then pure (.seq l r)
        else throw .assertionError
      else if pathUnaryOperators.contains name then
        if name == "?" then do
          let t ← createPathCheck a
          pure (.check t)
        else if name == "*" then do
          let p ← createPath a
          pure (.star p)
        else throw .assertionError
      else if name == "&" then
        match kwName a with
        | some "true" => pure .skip
        | some _ => throw (.runtime "unknown identifier")
        | none => throw (.runtime "invalid dynamic formula")
      else do
        let t ← atomToTest (← createAtom (.fn name [a, b]) true)
        pure (.seq (.check t) .skip)
  | .fn name args =>
      if pathBinaryOperators.contains name || pathUnaryOperators.contains name || name == "&" then throw .indexError
      else do
        let t ← atomToTest (← createAtom (.fn name args) true)
        pure (.seq (.check t) .skip)
  | _ => throw (.runtime "invalid dynamic formula")

def createDynamicFormula : TTerm → Py BForm
  | .sym name => createAtom (.sym name) true
  | .fn name [a] =>
      if delOperators.contains name then throw .indexError
      else if name == "&" then
        match kwName a with
        | some "true" => pure (.const true)
        | some "false" => pure (.const false)
        | some "final" => pure (.box .skip (.const false))
        | some _ => throw (.runtime "unknown identifier")
        | none => throw (.runtime "invalid dynamic formula")
      else if allOperators.contains name then throw (.runtime "invalid dynamic formula")
      else createAtom (.fn name [a]) true
  | .fn name [a, b] =>
      if delOperators.contains name then do
        let p ← createPath a
        let f ← createDynamicFormula b
        if name == ".>*" then pure (.box p f)
        else if name == ".>?" then pure (.dia p f)
        else throw .assertionError
      else if name == "&" then
        match kwName a with
        | some "true" => pure (.const true)
        | some "false" => pure (.const false)
        | some "final" => pure (.box .skip (.const false))
        | some _ => throw (.runtime "unknown identifier")
        | none => throw (.runtime "invalid dynamic formula")
      else if allOperators.contains name then throw (.runtime "invalid dynamic formula")
      else createAtom (.fn name [a, b]) true
  | .fn name args =>
      if delOperators.contains name || name == "&" then throw .indexError
      else if allOperators.contains name then throw (.runtime "invalid dynamic formula")
      else createAtom (.fn name args) true
  | _ => throw (.runtime "invalid dynamic formula")

/-! ### elements -/

/-- insertion sort by `_rep` (Python's `list.sort(key=…)` is stable) -/
def insertByRep (x : BForm) : List BForm → List BForm
  | [] => [x]
  | y :: ys => if x.rep < y.rep then x :: y :: ys else y :: insertByRep x ys

def sortByRep (xs : List BForm) : List BForm := xs.foldr insertByRep []

/-- `translate_conjunction` -/
def translateConjunction (fs : List BForm) : BForm :=
  match sortByRep fs with
  | [] => .const true
  | f :: rest => rest.foldl (fun acc x => .bin "&" acc x) f

/-- a theory element: one term and a condition (list of program literals) -/
structure TElem where
  term : TTerm
  cond : List Int
  deriving Repr, Inhabited

/-- the formula of one element: the element formula, under its condition if it has one -/
def elemFormula (e : TElem) (dynamic : Bool) : Py BForm :=
  (if dynamic then createDynamicFormula e.term else createFormula e.term) >>= fun f =>
    if e.cond.length > 0 then
      pure (BForm.bin "->" (translateConjunction (e.cond.map BForm.numLit)) f)
    else pure f

/-- `translate_elements(elements, add_formula, dynamic)` -/
def translateElements (els : List TElem) (dynamic : Bool) : Py BForm :=
  (els.mapM fun e => elemFormula e dynamic) >>= fun fs => pure (translateConjunction fs)

end TelModel
