/-
Stable-model semantics of the ground programs the model produces (`GRule` over `GAtom`):
here-and-there satisfaction of disjunctive / choice rules with `not` and `not not`, and stable
models as total HT models without a smaller "here".  This is the assumed contract of clingo's
`ground` + `solve` for these rule forms (trusted base).
-/
import TelModel.Ground

namespace TelModel

abbrev Interp := GAtom → Bool

def Interp.le (H T : Interp) : Prop := ∀ a, H a = true → T a = true

/-- body of a rule in the world `W` of the HT interpretation `(W, T)` -/
def GRule.bodyHolds (r : GRule) (W T : Interp) : Bool :=
  r.pos.all W && r.neg.all (fun a => !(T a)) && r.nneg.all T

def GRule.headHolds (r : GRule) (W T : Interp) : Bool :=
  if r.choice then r.head.all (fun a => W a || !(T a)) else r.head.any W

/-- the rule is satisfied in world `W` -/
def GRule.sat (r : GRule) (W T : Interp) : Bool := !(r.bodyHolds W T) || r.headHolds W T

/-- `(H, T)` is an HT model (for `H ≤ T`) -/
def HTModel (rs : List GRule) (H T : Interp) : Prop := ∀ r ∈ rs, r.sat H T = true ∧ r.sat T T = true

/-- `T` is a stable model (equilibrium model) of `rs` -/
def Stable (rs : List GRule) (T : Interp) : Prop :=
  (∀ r ∈ rs, r.sat T T = true) ∧ ∀ H : Interp, H.le T → (∀ r ∈ rs, r.sat H T = true) → ∀ a, H a = T a

end TelModel
