/-
Model of `IntervalSet` (telingo/transformers/head.py): a sorted list of disjoint, non-adjacent half-open
integer intervals `[left, right)`; `add` merges overlapping or touching intervals, `contains` tests inclusion
of an interval.  Used to merge the numeric time ranges of a head-formula atom.
-/
namespace TelModel

structure Ival where
  left : Int
  right : Int
  deriving Repr, DecidableEq, Inhabited

def Ival.before (a b : Ival) : Bool := decide (a.right < b.left)
def Ival.isEmpty (a : Ival) : Bool := decide (a.left ≥ a.right)
def Ival.union (a b : Ival) : Ival := ⟨min a.left b.left, max a.right b.right⟩
def Ival.mem (x : Int) (a : Ival) : Bool := decide (a.left ≤ x) && decide (x < a.right)

/-- second `while` loop of `IntervalSet.add`: merge every following interval that `y` does not lie strictly before -/
def mergeLoop : List Ival → Ival → Ival × List Ival
  | [], y => (y, [])
  | e :: es, y => if y.before e then (y, e :: es) else mergeLoop es (y.union e)

/-- first loop (skip the intervals strictly before `y`), second loop, splice -/
def addIval (es : List Ival) (y : Ival) : List Ival :=
  let pre := es.takeWhile (fun e => e.before y)
  let rest := es.dropWhile (fun e => e.before y)
  let (y', post) := mergeLoop rest y
  pre ++ y' :: post

def IntervalSet.add (s : List Ival) (y : Ival) : List Ival := if y.isEmpty then s else addIval s y

def IntervalSet.memPoint (s : List Ival) (x : Int) : Bool := s.any (Ival.mem x)

/-- `__contains__` for an interval -/
def IntervalSet.contains (s : List Ival) (y : Ival) : Bool :=
  if y.isEmpty then true else
  match s.dropWhile (fun e => e.before y) with
  | [] => false
  | e :: _ => decide (e.left ≤ y.left) && decide (y.right ≤ e.right)

end TelModel
