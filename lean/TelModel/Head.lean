/-
Model of `telingo/theory/head.py`: head formulas (`TelAtom`, `TelNext`, `TelUntil`, `TelClause`,
`TelNegation`, `TelConstant`, `TelShift`), their construction from theory terms, the per-step
`shift_formula`, the distribution into clauses `unfold_formula`, and their string representation.

Clauses are binary here: every `TelClause` that `create_formula` / `ShiftFormula` builds is binary; only a
head theory atom with several elements yields an n-ary top-level disjunction, which is outside the model
(the generators use single-element head atoms).
-/
import TelModel.Term
import TelModel.BodySem

namespace TelModel
open TelSpec Generated

inductive HForm where
  | atom (positive : Bool) (name : String) (args : List Sym)
  | next (n : Nat) (f : HForm) (weak : Bool)
  | until2 (l r : HForm) (unt : Bool)         -- unt = true: `l >? r`, false: `l >* r`
  | until1 (r : HForm) (unt : Bool)           -- `>? r`, `>* r`
  | clause2 (l r : HForm) (conj : Bool)
  | neg (f : HForm)
  | const (b : Bool)
  | shift (n : Int) (f : HForm)               -- TelShift(lhs, rhs)
  deriving Repr, Inhabited

def HForm.size : HForm → Nat
  | .atom _ _ _ => 1
  | .next _ f _ => f.size + 1
  | .until2 l r _ => l.size + r.size + 1
  | .until1 r _ => r.size + 1
  | .clause2 l r _ => l.size + r.size + 1
  | .neg f => f.size + 1
  | .const _ => 1
  | .shift _ f => f.size + 1

/-- `FormulaToStr` -/
def HForm.rep : HForm → String
  | .atom p n a => (if p then "" else "-") ++ n ++ (if a.isEmpty then "" else "(" ++ symsToStr a ++ ")")
  | .next n f w => "(" ++ toString n ++ (if w then ">:" else ">") ++ f.rep ++ ")"
  | .until2 l r u => "(" ++ l.rep ++ (if u then ">?" else ">*") ++ r.rep ++ ")"
  | .until1 r u => "(" ++ (if u then ">?" else ">*") ++ r.rep ++ ")"
  | .clause2 l r c => "(" ++ l.rep ++ (if c then "&" else "|") ++ r.rep ++ ")"
  | .neg f => "(~" ++ f.rep ++ ")"
  | .const b => if b then "&true" else "&false"
  | .shift n f =>
      if n == 0 then "(~(~" ++ f.rep ++ ")"
      else if n < 0 then "(~(~(" ++ toString (-n) ++ "<" ++ f.rep ++ "))"
      else "(~(~(" ++ toString n ++ ">" ++ f.rep ++ "))"

/-- head `create_atom` -/
def hCreateAtom : TTerm → Bool → Py HForm
  | .sym name, positive => pure (.atom positive name [])
  | .fn name args, positive =>
      match name, args with
      | "-", [a] => hCreateAtom a (!positive)
      | _, _ =>
        if !(binaryOperators.contains name) && !(unaryOperators.contains name) && !(telOperators.contains name)
            && !(arithmeticOperators.contains name) then do
          let xs ← createSymbols args
          pure (.atom positive name xs)
        else throw (.runtime "invalid atom")
  | _, _ => throw (.runtime "invalid atom")

def pastOps : List String := ["<", "<:", "<;", "<:;", "<*", "<?", "<<"]

/-- head `create_formula` -/
def hCreateFormula : TTerm → Py HForm
  | .sym name => hCreateAtom (.sym name) true
  | .fn name [a] =>
      if unaryOperators.contains name then do
        let f ← hCreateFormula a
        pure (.neg f)
      else if telOperators.contains name then
        if pastOps.contains name then throw (.runtime "invalid temporal formula")
        else do
          let rhs ← hCreateFormula a
          if name == ">" || name == ">:" then pure (.next 1 rhs (name == ">:"))
          else if name == ";>" || name == ";>:" then throw .attributeError     -- TelClause([None, …]): str(None) is fine, but lhs=None reaches FormulaToStr → AttributeError on visit
          else if name == ">*" then pure (.until1 rhs false)
          else if name == ">?" then pure (.until1 rhs true)
          else if name == ">>" then
            pure (.until1 (.clause2 (.neg (.atom true "__final" [])) rhs false) false)
          else throw .assertionError
      else if name == "&" then
        match kwName a with
        | some "initial" => pure (.neg (.neg (.atom true "__initial" [])))
        | some "final" => pure (.neg (.neg (.atom true "__final" [])))
        | some "true" => pure (.const true)
        | some "false" => pure (.const false)
        | some _ => throw (.runtime "unknown identifier")
        | none => throw (.runtime "invalid temporal formula")
      else hCreateAtom (.fn name [a]) true
  | .fn name [a, b] =>
      if binaryOperators.contains name then
        if name == "|" || name == "&" then do
          let l ← hCreateFormula a
          let r ← hCreateFormula b
          pure (.clause2 l r (name == "&"))
        else throw (.runtime "invalid temporal formula")
      else if telOperators.contains name then
        if pastOps.contains name then throw (.runtime "invalid temporal formula")
        else do
          let rhs ← hCreateFormula b
          if name == ">" || name == ">:" then do
            let n ← createOffset a
            pure (if n == 0 then rhs else .next n rhs (name == ">:"))
          else do
            let lhs ← hCreateFormula a
            if name == ";>" || name == ";>:" then pure (.clause2 lhs (.next 1 rhs (name == ";>:")) true)
            else if name == ">*" then pure (.until2 lhs rhs false)
            else if name == ">?" then pure (.until2 lhs rhs true)
            else if name == ">>" then
              pure (.until1 (.clause2 (.neg (.atom true "__final" [])) rhs false) false)
            else throw .assertionError
      else if name == "&" then
        match kwName a with
        | some "initial" => pure (.neg (.neg (.atom true "__initial" [])))
        | some "final" => pure (.neg (.neg (.atom true "__final" [])))
        | some "true" => pure (.const true)
        | some "false" => pure (.const false)
        | some _ => throw (.runtime "unknown identifier")
        | none => throw (.runtime "invalid temporal formula")
      else hCreateAtom (.fn name [a, b]) true
  | .fn name args =>
      if telOperators.contains name || name == "&" then throw .indexError
      else hCreateAtom (.fn name args) true
  | _ => throw (.runtime "invalid temporal formula")

/-- `shift_formula(x, shift)` for `shift ≥ 0`: everything that does not refer to the current time step is
    wrapped in a `TelShift`; `until`/`release` are unfolded one step at a time. -/
def shiftF : Nat → HForm → HForm
  | s, .atom p n a => if s = 0 then .atom p n a else .shift (-(s : Int)) (.atom p n a)
  | s, .next n f w => if n ≤ s then shiftF (s - n) f else .shift 0 (.next (n - s) f w)
  | s, .until2 l r u =>
      let nxt := match s with
        | 0 => HForm.shift 0 (.next 1 (.until2 l r u) (!u))
        | s'+1 => shiftF s' (.until2 l r u)
      .clause2 (shiftF s r) (.clause2 (shiftF s l) nxt u) (!u)
  | s, .until1 r u =>
      let nxt := match s with
        | 0 => HForm.shift 0 (.next 1 (.until1 r u) (!u))
        | s'+1 => shiftF s' (.until1 r u)
      .clause2 (shiftF s r) nxt (!u)
  | s, .clause2 l r c => .clause2 (shiftF s l) (shiftF s r) c
  | s, .neg f => .shift (-(s : Int)) (.neg f)
  | s, .const b => .shift (-(s : Int)) (.const b)
  | _, .shift n f => .shift n f          -- not produced by `create_formula`; `ShiftFormula` has no case for it
termination_by s f => (s, f.size)
decreasing_by
  all_goals simp_wf
  all_goals (simp [HForm.size, Prod.lex_def]; try omega)

/-- `unfold_formula`: conjunctive normal form as a list of clauses (lists of atoms and shifts) -/
def unfoldF : HForm → List (List HForm)
  | .clause2 l r true => unfoldF l ++ unfoldF r
  | .clause2 l r false => (unfoldF l).flatMap fun c => (unfoldF r).map fun d => c ++ d
  | f => [[f]]

/-! ### time ranges of head atoms (transformers/head.py, `TheoryAtomTransformer`) -/

/-- a range of time offsets: the point `lo` or the ray `lo, lo+1, …` -/
structure TRange where
  lo : Nat
  ray : Bool
  deriving Repr, DecidableEq

def TRange.covers (r : TRange) (x : Nat) : Prop := if r.ray then r.lo ≤ x else r.lo = x

/-- key of a head atom: sign, name, arguments as printed -/
def hkey (p : Bool) (n : String) (a : List Sym) : String := (if p then "" else "-") ++ n ++ "(" ++ symsToStr a ++ ")"

/-- the ranges `TheoryAtomTransformer` collects (ground, numeric case): next operators move the range, the unbounded
    operators turn it into a ray, nothing below a negation is collected -/
def rangesH (lo : Nat) (ray : Bool) : HForm → List (String × TRange)
  | .atom p n a => [(hkey p n a, ⟨lo, ray⟩)]
  | .next n f _ => rangesH (lo + n) ray f
  | .until2 l r _ => rangesH lo true l ++ rangesH lo true r
  | .until1 r _ => rangesH lo true r
  | .clause2 l r _ => rangesH lo ray l ++ rangesH lo ray r
  | .neg _ => []
  | .const _ => []
  | .shift _ _ => []


end TelModel
