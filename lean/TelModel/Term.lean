/-
Theory terms as telingo receives them from clingo (`clingo.TheoryTerm`), clingo
symbols, and the functions of `telingo/theory/formula.py` that turn the former
into the latter (`create_number`, `create_symbol`).
-/
import TelModel.Py
import TelModel.Generated.Tables

namespace TelModel
open TelSpec Generated

/-- `clingo.TheoryTerm` -/
inductive TTerm where
  | num (n : Int)
  | sym (s : String)
  | fn (name : String) (args : List TTerm)
  | tup (args : List TTerm)
  | lst (args : List TTerm)
  | set (args : List TTerm)
  deriving Repr, Inhabited

/-- `clingo.Symbol` -/
inductive Sym where
  | num (n : Int)
  | str (s : String)
  | inf
  | sup
  | fn (name : String) (args : List Sym) (positive : Bool)
  deriving Repr, Inhabited

mutual
def Sym.beq : Sym → Sym → Bool
  | .num a, .num b => a == b
  | .str a, .str b => a == b
  | .inf, .inf => true
  | .sup, .sup => true
  | .fn n as p, .fn m bs q => n == m && p == q && Sym.beqList as bs
  | _, _ => false
def Sym.beqList : List Sym → List Sym → Bool
  | [], [] => true
  | a :: as, b :: bs => Sym.beq a b && Sym.beqList as bs
  | _, _ => false
end

instance : BEq Sym := ⟨Sym.beq⟩

/-- printing of theory terms as in error messages (`str(rep)`); only used for messages -/
partial def TTerm.toStr : TTerm → String
  | .num n => toString n
  | .sym s => s
  | .fn name args => name ++ "(" ++ ",".intercalate (args.map TTerm.toStr) ++ ")"
  | .tup args => "(" ++ ",".intercalate (args.map TTerm.toStr) ++ ")"
  | .lst args => "[" ++ ",".intercalate (args.map TTerm.toStr) ++ "]"
  | .set args => "{" ++ ",".intercalate (args.map TTerm.toStr) ++ "}"

/-! ### clingo's printing of symbols (`str(Symbol)`) -/

def escapeStr (s : String) : String :=
  String.ofList (s.toList.flatMap fun c =>
    if c == '\n' then ['\\', 'n'] else if c == '\\' then ['\\', '\\'] else if c == '"' then ['\\', '"'] else [c])

mutual
def Sym.toStr : Sym → String
  | .num n => toString n
  | .str s => "\"" ++ escapeStr s ++ "\""
  | .inf => "#inf"
  | .sup => "#sup"
  | .fn name args positive =>
      (if positive then "" else "-") ++ name ++
      (match args with
       | [] => if name == "" then "()" else ""
       | [a] => if name == "" then "(" ++ a.toStr ++ ",)" else "(" ++ a.toStr ++ ")"
       | a :: as => "(" ++ a.toStr ++ Sym.toStrTail as ++ ")")
def Sym.toStrTail : List Sym → String
  | [] => ""
  | a :: as => "," ++ a.toStr ++ Sym.toStrTail as
end

def symsToStr (xs : List Sym) : String := ",".intercalate (xs.map Sym.toStr)

/-! ### `create_number` -/

def createNumber : TTerm → Py Int
  | .fn name [a] =>
      if name == "-" then do let x ← createNumber a; pure (-x)
      else throw (.runtime "number expected")
  | .fn name [a, b] =>
      if arithmeticOperators.contains name then do
        let x ← createNumber a
        let y ← createNumber b
        if name == "+" then pure (x + y)
        else if name == "-" then pure (x - y)
        else throw (.runtime "number expected")
      else throw (.runtime "number expected")
  | .num n => if n ≥ 0 then pure n else throw (.runtime "number expected")
  | _ => throw (.runtime "number expected")

/-! ### `create_symbol` -/

mutual
def createSymbol : TTerm → Py Sym
  | .num n => pure (.num n)
  | .lst _ => throw (.runtime "invalid symbol")
  | .set _ => throw (.runtime "invalid symbol")
  | .sym name =>
      if binaryOperators.contains name || unaryOperators.contains name || telOperators.contains name then
        throw (.runtime "invalid symbol")
      else if name == "#inf" then pure .inf
      else if name == "#sup" then pure .sup
      else if name.length > 1 && startsWithChar name '"' && endsWithChar name '"' then
        pure (.str (stripEnds name))
      else pure (.fn name [] true)
  | .tup args => do
      -- name = "" is never an operator
      let xs ← createSymbols args
      pure (.fn "" xs true)
  | .fn name args =>
      if arithmeticOperators.contains name then
        match args with
        | [a] => do
            let rhs ← createSymbol a
            if name == "-" then
              match rhs with
              | .num n => pure (.num (-n))
              | .fn n as p => pure (.fn n as (!p))
              | _ => throw (.runtime "invalid symbol")
            else throw (.runtime "invalid symbol")
        | [a, b] => do
            let n ← createNumber (.fn name [a, b])
            pure (.num n)
        | _ => throw (.runtime "invalid symbol")
      else if binaryOperators.contains name || unaryOperators.contains name || telOperators.contains name then
        throw (.runtime "invalid symbol")
      else
        match args with
        | [] =>
          if name == "#inf" then pure .inf
          else if name == "#sup" then pure .sup
          else if name.length > 1 && startsWithChar name '"' && endsWithChar name '"' then
            pure (.str (stripEnds name))
          else pure (.fn name [] true)
        | _ => do
          let xs ← createSymbols args
          pure (.fn name xs true)
def createSymbols : List TTerm → Py (List Sym)
  | [] => pure []
  | a :: as => do
      let x ← createSymbol a
      let xs ← createSymbols as
      pure (x :: xs)
end

/-! ### how clingo presents a ground symbol inside a theory atom (validated against gringo, layer L3) -/

/-- a function symbol, tuple or constant over already converted arguments -/
def baseTerm (name : String) (ts : List TTerm) : TTerm :=
  if name == "" then TTerm.tup ts
  else match ts with
    | [] => TTerm.sym name
    | _ => TTerm.fn name ts

mutual
/-- the theory term clingo hands over for a symbol occurring in a theory atom -/
def symTerm : Sym → TTerm
  | .num n => if n ≥ 0 then .num n else .fn "-" [.num (-n)]
  | .str s => .sym ("\"" ++ s ++ "\"")
  | .inf => .sym "#inf"
  | .sup => .sym "#sup"
  | .fn name args positive =>
      if positive then baseTerm name (symTerms args) else .fn "-" [baseTerm name (symTerms args)]
def symTerms : List Sym → List TTerm
  | [] => []
  | a :: as => symTerm a :: symTerms as
end

end TelModel
