/-
Model of `telingo.imain` (the incremental solve loop), built on the pieces that
`tools/extract.py` regenerates from the source on every run:
`loopCond`, `partCond`, `assumeCond`, `assumeNegated`, `stepScript`.

The loop is a fuelled fold: `runLoop … fuel` returns the horizons of the first
`fuel` solve calls (or all of them if the loop stops earlier), so statements
about "every prefix of the run" need no termination assumption.
-/
import TelModel.Py
import TelModel.Generated.Imain

namespace TelModel
open Generated

structure Opts where
  imin : Int := defaultImin
  imax : Option Int := defaultImax
  istop : String := defaultIstop
  deriving Repr, DecidableEq

/-- Horizons at which `solve` is called, given the result of the solve call at each horizon. -/
def runLoop (o : Opts) (res : Nat → SolveResult) : Nat → Nat → Option SolveResult → Py (List Nat)
  | 0, _, _ => pure []
  | fuel+1, step, ret => do
    if (← loopCond o.imin o.imax o.istop (step : Int) ret) then
      let rest ← runLoop o res fuel (step+1) (some (res step))
      pure (step :: rest)
    else
      pure []

/-- the whole run from the initial state `step, ret = 0, None` -/
def run (o : Opts) (res : Nat → SolveResult) (fuel : Nat) : Py (List Nat) := runLoop o res fuel 0 none

/-! ### The control calls of one iteration -/

/-- a program part as returned by `transform`: (root, name, range) -/
structure PartSpec where
  root : String
  name : String
  range : List Int
  deriving Repr, DecidableEq

/-- one `(part_name, [step - i, step])` entry of the `ground` call -/
structure GroundPart where
  name : String
  t : Int
  u : Int
  deriving Repr, DecidableEq

/-- the `parts` list built at the top of the loop body -/
def groundParts (parts : List PartSpec) (step : Nat) : List GroundPart :=
  parts.flatMap fun p => p.range.filterMap fun i =>
    if partCond p.root (step : Int) i then some ⟨p.name, (step : Int) - i, (step : Int)⟩ else none

/-- an atom of a future signature in the atom base: its last argument and its literal -/
structure SigAtom where
  lastArg : Int
  literal : Int
  deriving Repr, DecidableEq

def assumptions (atoms : List SigAtom) (step : Nat) : List Int :=
  atoms.filterMap fun a =>
    if assumeCond a.lastArg (step : Int) then some (if assumeNegated then -a.literal else a.literal) else none

inductive Call where
  | release (k : Int)                 -- release_external(__final(k))
  | cleanup
  | ground (parts : List GroundPart)
  | translate (horizon : Int)
  | assign (k : Int)                  -- assign_external(__final(k), True)
  | solve (assume : List Int)
  deriving Repr, DecidableEq

/-- the calls of the iteration at `step`, in the order of the (generated) script;
    `atoms` is what `by_signature` enumerates at this step -/
def stepCalls (parts : List PartSpec) (atoms : List SigAtom) (step : Nat) : List Call :=
  stepScript.filterMap fun (guarded, op) =>
    if guarded && !(decide (0 < step)) then none else
    some (match op with
      | .releaseFinalPrev => Call.release ((step : Int) - 1)
      | .cleanup => Call.cleanup
      | .ground => Call.ground (groundParts parts step)
      | .translate => Call.translate step
      | .assignFinalTrue => Call.assign step
      | .solve => Call.solve (assumptions atoms step))

/-- call log of a whole run -/
def callLog (o : Opts) (parts : List PartSpec) (atoms : Nat → List SigAtom) (res : Nat → SolveResult) (fuel : Nat) :
    Py (List Call) := do
  let hs ← run o res fuel
  pure (hs.flatMap fun s => stepCalls parts (atoms s) s)

/-! ### Option parsing (CLI) -/

inductive OptOutcome where
  | accepted (o : Opts)
  | rejected                     -- parser returned False: clingo prints "invalid value"
  | crashed (e : PyErr)          -- an exception escaped the parser
  deriving Repr, DecidableEq

def applyOption (o : Opts) (name value : String) : OptOutcome :=
  match name with
  | "imin" => match parseImin value with
    | .ok (v, true) => .accepted { o with imin := v }
    | .ok (_, false) => .rejected
    | .error e => .crashed e
  | "imax" => match parseImax value with
    | .ok (v, true) => .accepted { o with imax := v }
    | .ok (_, false) => .rejected
    | .error e => .crashed e
  | "istop" => match parseIstop value with
    | .ok (v, true) => .accepted { o with istop := v }
    | .ok (_, false) => .rejected
    | .error e => .crashed e
  | _ => .rejected

end TelModel
