/-
Model of the todo list of `Theory` (telingo/theory/__init__.py): `add_todo` queues a (step, formula) pair for the next
`translate` call unless a pair with the same key (step, representation) is queued already; `translate` takes the whole
list and starts an empty one.
-/
namespace TelModel

abbrev TodoKey := Nat × String

structure TodoState where
  todo : List TodoKey := []       -- `__todo` (the formula object is identified by its representation)
  keys : List TodoKey := []       -- `__todo_keys` (a Python set)
  deriving Repr

/-- `Theory.add_todo` -/
def addTodo (st : TodoState) (k : TodoKey) : TodoState :=
  if st.keys.contains k then st else { todo := st.todo ++ [k], keys := k :: st.keys }

/-- the queue after a sequence of `add_todo` calls on a fresh / just emptied list -/
def todoAfter (ks : List TodoKey) : List TodoKey := (ks.foldl addTodo {}).todo

end TelModel
