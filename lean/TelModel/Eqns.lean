/-
Driver-side helpers: decoding theory terms, computing the set of (formula, step) pairs reachable
from the theory atoms of a run together with their one-step equations (layer L4).
-/
import TelModel.BodySem

namespace TelModel
open TelSpec

partial def decTTerm : Sexp → D TTerm
  | .list [.atom "n", n] => return .num (← decInt n)
  | .list [.atom "s", s] => return .sym (← decStr s)
  | .list (.atom "f" :: name :: args) => return .fn (← decStr name) (← args.mapM decTTerm)
  | .list (.atom "t" :: args) => return .tup (← args.mapM decTTerm)
  | .list (.atom "l" :: args) => return .lst (← args.mapM decTTerm)
  | .list (.atom "c" :: args) => return .set (← args.mapM decTTerm)
  | s => dfail "tterm" s

def decTElem : Sexp → D TElem
  | .list [.atom "elem", t, .list cond] => return { term := ← decTTerm t, cond := ← cond.mapM decInt }
  | s => dfail "elem" s

partial def BExpr.show : BExpr → String
  | .const b => if b then "(c 1)" else "(c 0)"
  | .atomAt key k => s!"(a {Sexp.quote key} {k})"
  | .lit l => s!"(l {l})"
  | .ref f k => s!"(r {Sexp.quote f.rep} {k})"
  | .not e => s!"(n {e.show})"
  | .and a b => s!"(& {a.show} {b.show})"
  | .or a b => s!"(| {a.show} {b.show})"
  | .iff a b => s!"(= {a.show} {b.show})"

/-- all pairs reachable from the roots through the references of their equations -/
partial def reachPairs (h : Nat) (todo : List (BForm × Nat)) (seen : List (String × Nat)) (acc : List (BForm × Nat)) :
    List (BForm × Nat) :=
  match todo with
  | [] => acc.reverse
  | (f, k) :: rest =>
    if seen.contains (f.rep, k) then reachPairs h rest seen acc
    else reachPairs h ((eqn h f k).refs ++ rest) ((f.rep, k) :: seen) ((f, k) :: acc)

def showEqns (h : Nat) (roots : List (BForm × Nat)) : String :=
  let ps := reachPairs h roots [] []
  "((" ++ " ".intercalate (roots.map fun (f, k) => s!"({Sexp.quote f.rep} {k})") ++ ") (" ++
    " ".intercalate (ps.map fun (f, k) => s!"({Sexp.quote f.rep} {k} {(eqn h f k).show})") ++ "))"

end TelModel
