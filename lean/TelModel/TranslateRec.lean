/-
Model of the recursion of `BodyFormula.translate` over (formula, step) pairs (telingo/theory/body.py): which pairs get their
literal before their operands are translated and which after — and therefore when the recursion stops although the
unfolding of a dynamic formula may reach a pair again.

  * `leaf`     atoms, numeric literals, constants, a next operator beyond the horizon (placeholder): the literal is set directly
  * `alias c`  negation, previous, initially, a next operator inside the horizon: translate the operand pair, take its literal
  * `op recheck a b` / `op3 a b c`   Boolean connectives (`recheck = true`: after the operands have been translated the formula
               looks again whether it has a literal meanwhile — the repair of D17) and since / trigger / until / release
               (`recheck = false`; operands: the inductive pair, lhs, rhs): operands first, then `StepData.add_literal`
  * `early c`  box / diamond: `add_literal` first, then the pair of the unfolding
`StepData.add_literal` asserts that the pair has no literal yet; the model records a failed assertion in `err`.

The recursion is defined by well-founded recursion on (number of pairs without literal, rank): Lean accepts the definition only
with a proof that every call decreases this measure, given that the operands of `alias` / `op` / `op3` pairs have smaller rank
(`Graph.ok`).  Pairs reached through an `early` pair may have any rank: cycles through box / diamond pairs are allowed.
-/
namespace TelModel.TR

inductive Kind (n : Nat) where
  | leaf
  | alias (c : Fin n)
  | op (recheck : Bool) (a b : Fin n)
  | op3 (a b c : Fin n)
  | early (c : Fin n)

structure Graph (n : Nat) where
  kind : Fin n → Kind n
  rank : Fin n → Nat
  wrank : Fin n → Nat := fun _ => 0      -- a weak rank over all edges (see `Graph.wok`)

/-- operands of pairs that wait for their operands have smaller rank -/
def Graph.ok {n : Nat} (G : Graph n) : Prop :=
  ∀ k, match G.kind k with
    | .leaf => True
    | .alias c => G.rank c < G.rank k
    | .op _ a b => G.rank a < G.rank k ∧ G.rank b < G.rank k
    | .op3 a b c => G.rank a < G.rank k ∧ G.rank b < G.rank k ∧ G.rank c < G.rank k
    | .early _ => True

structure St (n : Nat) where
  set : Fin n → Bool          -- the pair has a literal
  err : Bool := false         -- an assertion of `add_literal` has failed
  log : List Nat := []        -- the pairs in the order in which they got their literal

def St.le {n : Nat} (s t : St n) : Prop := ∀ i, s.set i = true → t.set i = true

/-- number of pairs without literal -/
def St.open_ {n : Nat} (s : St n) : Nat := (List.finRange n).countP fun i => !s.set i

def St.put {n : Nat} (s : St n) (k : Fin n) : St n :=
  { s with set := fun i => if i = k then true else s.set i, log := s.log ++ [k.val] }

/-- `StepData.add_literal`: asserts that there is no literal yet -/
def St.addLiteral {n : Nat} (s : St n) (k : Fin n) : St n :=
  if s.set k then { s with err := true } else s.put k

theorem St.le_refl {n : Nat} (s : St n) : s.le s := fun _ h => h
theorem St.le_trans {n : Nat} {s t u : St n} (h1 : s.le t) (h2 : t.le u) : s.le u := fun i h => h2 i (h1 i h)

theorem St.le_put {n : Nat} (s : St n) (k : Fin n) : s.le (s.put k) := by
  intro i h; simp only [St.put]; split <;> simp [h]

theorem St.put_set {n : Nat} (s : St n) (k : Fin n) : (s.put k).set k = true := by simp [St.put]

theorem St.le_addLiteral {n : Nat} (s : St n) (k : Fin n) : s.le (s.addLiteral k) := by
  unfold St.addLiteral; split
  · exact fun _ h => h
  · exact s.le_put k

theorem St.addLiteral_set {n : Nat} (s : St n) (k : Fin n) : (s.addLiteral k).set k = true := by
  unfold St.addLiteral; split
  · assumption
  · exact s.put_set k

theorem St.open_le {n : Nat} {s t : St n} (h : s.le t) : t.open_ ≤ s.open_ := by
  unfold St.open_
  apply List.countP_mono_left
  intro i _ hi
  cases hs : s.set i
  · rfl
  · rw [h i hs] at hi; simp at hi

theorem countP_lt_of {α : Type} (p q : α → Bool) : ∀ (l : List α), (∀ x ∈ l, p x = true → q x = true) →
    (∃ x ∈ l, q x = true ∧ p x = false) → l.countP p < l.countP q := by
  intro l
  induction l with
  | nil => intro _ ⟨x, hx, _⟩; simp at hx
  | cons y ys ih =>
    intro hm ⟨x, hx, hq, hp⟩
    have hm' : ∀ x ∈ ys, p x = true → q x = true := fun x hx => hm x (List.mem_cons_of_mem _ hx)
    have hle : ys.countP p ≤ ys.countP q := List.countP_mono_left hm'
    rcases List.mem_cons.mp hx with rfl | hx'
    · simp [hq, hp]; omega
    · have := ih hm' ⟨x, hx', hq, hp⟩
      have hy := hm y List.mem_cons_self
      simp only [List.countP_cons]
      cases hpy : p y
      · cases hqy : q y <;> simp <;> omega
      · rw [hy hpy]; simp; omega

theorem St.open_put {n : Nat} (s : St n) (k : Fin n) (hk : s.set k = false) : (s.put k).open_ < s.open_ := by
  unfold St.open_
  apply countP_lt_of
  · intro i _ hi
    simp only [St.put] at hi
    by_cases hik : i = k
    · simp [hik] at hi
    · simpa [hik] using hi
  · exact ⟨k, List.mem_finRange k, by simp [hk], by simp [St.put]⟩

theorem St.addLiteral_err {n : Nat} (s : St n) (k : Fin n) (hk : s.set k = false) : (s.addLiteral k).err = s.err := by
  simp [St.addLiteral, hk, St.put]

theorem St.put_set_imp {n : Nat} (s : St n) (k i : Fin n) (h : (s.put k).set i = true) : i = k ∨ s.set i = true := by
  simp only [St.put] at h
  by_cases hik : i = k
  · exact Or.inl hik
  · right; simpa [hik] using h

theorem St.addLiteral_set_imp {n : Nat} (s : St n) (k i : Fin n) (h : (s.addLiteral k).set i = true) : i = k ∨ s.set i = true := by
  unfold St.addLiteral at h
  split at h
  · exact Or.inr h
  · exact s.put_set_imp k i h

/-- What keeps the assertion of `add_literal` true.  `wrank` never increases along an edge (unfoldings of box / diamond pairs
    included); a pair that takes its literal after its operands without looking again (since / trigger / until / release)
    lies strictly above its operands, so it cannot be reached from them; Boolean connectives may lie on a cycle — they look again
    (the repair of D17). -/
def Graph.wok {n : Nat} (G : Graph n) : Prop :=
  ∀ k, match G.kind k with
    | .leaf => True
    | .alias c => G.wrank c ≤ G.wrank k
    | .op r a b => if r = true then G.wrank a ≤ G.wrank k ∧ G.wrank b ≤ G.wrank k
                   else G.wrank a < G.wrank k ∧ G.wrank b < G.wrank k
    | .op3 a b c => G.wrank a < G.wrank k ∧ G.wrank b < G.wrank k ∧ G.wrank c < G.wrank k
    | .early c => G.wrank c ≤ G.wrank k

/-- `BodyFormula.translate` on the pair `k`: returns the new state together with the facts that no literal is lost, that the
    pair has a literal afterwards, that only pairs at or below `k` (in `wrank`) obtain a literal, and that no assertion fails
    (`fixed`: the code after the repair of D17; `fixed = false` leaves the second look of the Boolean connectives out). -/
def tr {n : Nat} (G : Graph n) (hG : G.ok) (fixed : Bool) (k : Fin n) (s : St n) :
    { t : St n // s.le t ∧ t.set k = true ∧
        (G.wok → ∀ i, t.set i = true → s.set i = true ∨ G.wrank i ≤ G.wrank k) ∧
        (G.wok → fixed = true → s.err = false → t.err = false) } :=
  if hs : s.set k = true then ⟨s, s.le_refl, hs, fun _ _ h => Or.inl h, fun _ _ h => h⟩
  else
    match hk : G.kind k with
    | .leaf => ⟨s.put k, s.le_put k, s.put_set k, by
        intro _ i h
        rcases s.put_set_imp k i h with rfl | h
        · exact Or.inr (Nat.le_refl _)
        · exact Or.inl h, fun _ _ h => h⟩
    | .alias c =>
      have hr : G.rank c < G.rank k := by have := hG k; rw [hk] at this; exact this
      match tr G hG fixed c s with
      | ⟨s1, h1, _, b1, e1⟩ => ⟨s1.put k, St.le_trans h1 (s1.le_put k), s1.put_set k, by
          intro g i h
          have hw : G.wrank c ≤ G.wrank k := by have := g k; rw [hk] at this; exact this
          rcases s1.put_set_imp k i h with rfl | h
          · exact Or.inr (Nat.le_refl _)
          · rcases b1 g i h with h | h
            · exact Or.inl h
            · exact Or.inr (Nat.le_trans h hw), fun g f h => e1 g f h⟩
    | .op recheck a b =>
      have hr : G.rank a < G.rank k ∧ G.rank b < G.rank k := by have := hG k; rw [hk] at this; exact this
      match tr G hG fixed a s with
      | ⟨s1, h1, _, b1, e1⟩ =>
        have : s1.open_ ≤ s.open_ := St.open_le h1
        match tr G hG fixed b s1 with
        | ⟨s2, h2, _, b2, e2⟩ =>
          have hw : G.wok → G.wrank a ≤ G.wrank k ∧ G.wrank b ≤ G.wrank k := by
            intro g; have := g k; rw [hk] at this
            by_cases hrc : recheck = true
            · simpa [hrc] using this
            · simp [hrc] at this; exact ⟨Nat.le_of_lt this.1, Nat.le_of_lt this.2⟩
          have below : G.wok → ∀ i, s2.set i = true → s.set i = true ∨ G.wrank i ≤ G.wrank k := by
            intro g i h
            rcases b2 g i h with h | h
            · rcases b1 g i h with h | h
              · exact Or.inl h
              · exact Or.inr (Nat.le_trans h (hw g).1)
            · exact Or.inr (Nat.le_trans h (hw g).2)
          if hc : (fixed && recheck && s2.set k) = true then
            ⟨s2, St.le_trans h1 h2, by simp at hc; exact hc.2, below, fun g f h => e2 g f (e1 g f h)⟩
          else ⟨s2.addLiteral k, St.le_trans (St.le_trans h1 h2) (s2.le_addLiteral k), s2.addLiteral_set k, by
            intro g i h
            rcases s2.addLiteral_set_imp k i h with rfl | h
            · exact Or.inr (Nat.le_refl _)
            · exact below g i h, by
            intro g f h
            have hk2 : s2.set k = false := by
              cases hq : s2.set k
              · rfl
              · by_cases hrc : recheck = true
                · simp [f, hrc, hq] at hc
                · -- no second look: the pair lies strictly above its operands, so they cannot have reached it
                  have hstrict := g k; rw [hk] at hstrict; simp [hrc] at hstrict
                  rcases b2 g k hq with h' | h'
                  · rcases b1 g k h' with h'' | h''
                    · simp [h''] at hs
                    · omega
                  · omega
            rw [s2.addLiteral_err k hk2]
            exact e2 g f (e1 g f h)⟩
    | .op3 a b c =>
      have hr : G.rank a < G.rank k ∧ G.rank b < G.rank k ∧ G.rank c < G.rank k := by have := hG k; rw [hk] at this; exact this
      match tr G hG fixed a s with
      | ⟨s1, h1, _, b1, e1⟩ =>
        have : s1.open_ ≤ s.open_ := St.open_le h1
        match tr G hG fixed b s1 with
        | ⟨s2, h2, _, b2, e2⟩ =>
          have : s2.open_ ≤ s.open_ := Nat.le_trans (St.open_le h2) this
          match tr G hG fixed c s2 with
          | ⟨s3, h3, _, b3, e3⟩ =>
            have below : G.wok → ∀ i, s3.set i = true → s.set i = true ∨ G.wrank i < G.wrank k := by
              intro g i h
              have hstrict := g k; rw [hk] at hstrict
              rcases b3 g i h with h | h
              · rcases b2 g i h with h | h
                · rcases b1 g i h with h | h
                  · exact Or.inl h
                  · exact Or.inr (by omega)
                · exact Or.inr (by omega)
              · exact Or.inr (by omega)
            ⟨s3.addLiteral k, St.le_trans (St.le_trans (St.le_trans h1 h2) h3) (s3.le_addLiteral k), s3.addLiteral_set k, by
              intro g i h
              rcases s3.addLiteral_set_imp k i h with rfl | h
              · exact Or.inr (Nat.le_refl _)
              · rcases below g i h with h | h
                · exact Or.inl h
                · exact Or.inr (Nat.le_of_lt h), by
              intro g f h
              have hk3 : s3.set k = false := by
                cases hq : s3.set k
                · rfl
                · rcases below g k hq with h' | h'
                  · simp [h'] at hs
                  · omega
              rw [s3.addLiteral_err k hk3]
              exact e3 g f (e2 g f (e1 g f h))⟩
    | .early c =>
      have : (s.put k).open_ < s.open_ := s.open_put k (by simpa using hs)
      match tr G hG fixed c (s.put k) with
      | ⟨s1, h1, _, b1, e1⟩ => ⟨s1, St.le_trans (s.le_put k) h1, h1 k (s.put_set k), by
          intro g i h
          have hw : G.wrank c ≤ G.wrank k := by have := g k; rw [hk] at this; exact this
          rcases b1 g i h with h | h
          · rcases s.put_set_imp k i h with rfl | h
            · exact Or.inr (Nat.le_refl _)
            · exact Or.inl h
          · exact Or.inr (Nat.le_trans h hw), fun g f h => e1 g f h⟩
termination_by (s.open_, G.rank k)
decreasing_by
  all_goals simp_wf
  all_goals first
    | (apply Prod.Lex.right; omega)
    | (apply Prod.Lex.left; omega)
    | (rw [Prod.lex_def]; simp only; omega)

/-- `Graph.ok` as a test, for running the model on graphs taken from real runs -/
def Graph.okB {n : Nat} (G : Graph n) : Bool :=
  (List.finRange n).all fun k => match G.kind k with
    | .leaf => true
    | .alias c => decide (G.rank c < G.rank k)
    | .op _ a b => decide (G.rank a < G.rank k) && decide (G.rank b < G.rank k)
    | .op3 a b c => decide (G.rank a < G.rank k) && decide (G.rank b < G.rank k) && decide (G.rank c < G.rank k)
    | .early _ => true

theorem Graph.okB_ok {n : Nat} (G : Graph n) (h : G.okB = true) : G.ok := by
  intro k
  have hk := (List.all_eq_true.mp h) k (List.mem_finRange k)
  cases hkind : G.kind k with
  | leaf => trivial
  | alias c => rw [hkind] at hk; simpa using hk
  | op r a b => rw [hkind] at hk; simpa using hk
  | op3 a b c => rw [hkind] at hk; simp only [Bool.and_eq_true, decide_eq_true_eq] at hk; exact ⟨hk.1.1, hk.1.2, hk.2⟩
  | early c => trivial

/-- translate the given pairs one after the other (the loop over the todo list) -/
def trAll {n : Nat} (G : Graph n) (hG : G.ok) (fixed : Bool) : List (Fin n) → St n → St n
  | [], s => s
  | k :: ks, s => trAll G hG fixed ks (tr G hG fixed k s).1

end TelModel.TR
