/-
Model of `Next.do_translate` (telingo/theory/body.py) as a state machine on the per-step data of a next formula, and of its
life across the horizons of an incremental run: translated directly when the target state exists, otherwise represented by an
external placeholder that is re-queued under its own step until the horizon reaches the target, then equated with the
argument's literal and set free.
-/
namespace TelModel

/-- `StepData` of a next formula at one step: no literal yet / a placeholder (`done = False`) / finished -/
inductive NState where
  | fresh | pending | done
  deriving Repr, DecidableEq, Inhabited

/-- what one call of `do_translate` does -/
inductive NAction where
  | direct (target : Nat)                       -- literal := literal of the argument at `target`
  | placeholder (value : Bool) (todoStep : Nat) -- fresh atom, external with the operator's end-of-trace value, `add_todo(self, todoStep)`
  | resolve (target : Nat)                      -- `make_equal(placeholder, argument at target)`, external set free
  | requeue (todoStep : Nat)                    -- still beyond the horizon: `add_todo(self, todoStep)`
  | nothing
  deriving Repr, DecidableEq, Inhabited

/-- `Next.do_translate` for the `n`-fold (weak) next at `step`, with the current horizon -/
def nextTranslate (n : Nat) (weak : Bool) (step horizon : Nat) : NState → NState × NAction
  | .fresh => if step + n ≤ horizon then (.done, .direct (step + n)) else (.pending, .placeholder weak step)
  | .pending => if step + n ≤ horizon then (.done, .resolve (step + n)) else (.pending, .requeue step)
  | .done => (.done, .nothing)

/-- does the action put the formula on the todo list of the next `translate` call, and under which step? -/
def NAction.todo : NAction → Option Nat
  | .placeholder _ s => some s
  | .requeue s => some s
  | _ => none

/-- the life of the pair (formula, `step`) from the horizon `h0` at which it is first translated: state after the `translate`
    call of horizon `h0 + k`, whether the pair is on the todo list for the following call, and the last action.
    A pair on the todo list is translated again in the next call — under the step it was queued with. -/
def life (n : Nat) (weak : Bool) (step h0 : Nat) : Nat → NState × Option Nat × NAction
  | 0 =>
      let (st, a) := nextTranslate n weak step h0 .fresh
      (st, a.todo, a)
  | k + 1 =>
      match life n weak step h0 k with
      | (st, some s, _) =>
          let (st', a) := nextTranslate n weak s (h0 + k + 1) st
          (st', a.todo, a)
      | (st, none, _) => (st, none, .nothing)

end TelModel
