/-
Model of the last step of the head-formula translation (telingo/theory/head.py): `head_formula_to_body_formula`
(a head formula read as a body formula), `ClauseToRule` and `translate_clause` — one clause of the unfolded, shifted
formula becomes one disjunctive rule: the atoms of the current step are its head, every shifted part `TelShift(n, f)`
contributes the negated literal of the body formula `n > f` / `n < f` / `f` to its body.
-/
import TelModel.Head
import TelModel.BodySem

namespace TelModel

/-- `HeadFormulaToBodyFormula` -/
def toBody : HForm → BForm
  | .atom p n a => .atom n a p
  | .next n f w => .next (toBody f) n w
  | .until2 l r u => .telN2 (!u) (toBody l) (toBody r)
  | .until1 r u => .telN1 (!u) (toBody r)
  | .clause2 l r c => .bin (if c then "&" else "|") (toBody l) (toBody r)
  | .neg f => .neg (toBody f)
  | .const b => .const b
  | .shift _ f => toBody f            -- no case in the code: a `TelShift` never occurs below another one

/-- the body formula whose literal `ClauseToRule.visit_TelShift` negates -/
def shiftBody (n : Int) (f : HForm) : BForm :=
  if n = 0 then toBody f
  else if n > 0 then .next (toBody f) n.toNat false
  else .prev (toBody f) (-n).toNat false

/-- what one element of a clause contributes to the rule -/
inductive RuleElem where
  | head (positive : Bool) (name : String) (args : List Sym)   -- an atom of the current step (if the atom base knows it)
  | nbody (f : BForm)                                          -- `not` literal of this body formula at the current step
  | nothing                                                    -- any other node: no visitor, nothing is added
  deriving Repr, Inhabited

def ruleElem : HForm → RuleElem
  | .atom p n a => .head p n a
  | .shift n f => .nbody (shiftBody n f)
  | _ => .nothing

/-- `translate_clause` (without the literal of the rule's own body atom) -/
def ruleShape (c : List HForm) : List RuleElem := c.map ruleElem

end TelModel
