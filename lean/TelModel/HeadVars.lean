/-
Model of `get_variables` (telingo/transformers/head.py): the variables of a head theory atom, collected into a dictionary
keyed by name and returned in the order of the names — the arguments of the auxiliary atom `__aux_i(vars, t)` that stands
for the head formula in the rewritten rule.
-/
import TelModel.HTerm

namespace TelModel

mutual
/-- every occurrence of a variable, in visiting order -/
def HTerm.varsOf : HTerm → List String
  | .num _ => []
  | .var x => [x]
  | .sym _ => []
  | .fn _ args => HTerm.varsOfL args
  | .tuple args => HTerm.varsOfL args
  | .seq args => HTerm.varsOfL args
def HTerm.varsOfL : List HTerm → List String
  | [] => []
  | t :: ts => HTerm.varsOf t ++ HTerm.varsOfL ts
end

/-- insertion into a list kept in increasing order without repetitions (a dictionary keyed by name, read in key order) -/
def insertU (x : String) : List String → List String
  | [] => [x]
  | y :: ys => if x == y then y :: ys else if x < y then x :: y :: ys else y :: insertU x ys

/-- `get_variables` -/
def getVariables (t : HTerm) : List String := (HTerm.varsOf t).foldl (fun acc x => insertU x acc) []

mutual
/-- replacing variables -/
def HTerm.subst (σ : String → HTerm) : HTerm → HTerm
  | .num n => .num n
  | .var x => σ x
  | .sym s => .sym s
  | .fn name args => .fn name (HTerm.substL σ args)
  | .tuple args => .tuple (HTerm.substL σ args)
  | .seq args => .seq (HTerm.substL σ args)
def HTerm.substL (σ : String → HTerm) : List HTerm → List HTerm
  | [] => []
  | t :: ts => HTerm.subst σ t :: HTerm.substL σ ts
end

end TelModel
