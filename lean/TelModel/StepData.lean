/-
Model of `StepData` and of the bookkeeping in `BodyFormula.translate` / `BodyFormula.add_atom`
(telingo/theory/body.py): the program literals of the occurrences of one theory atom at one step
(`add_atom`, called by `Theory.translate` for every ground `&tel` / `&del` atom) are collected, the formula
gets its literal when it is translated — one of the collected literals (`add_literal` takes the smallest and
removes it from the set), a fresh atom under a choice rule (`add_literal` on an empty set), or a literal
assigned by `do_translate` (atoms, negation, previous, next, …) — and every collected literal not yet treated
is made equivalent to the formula's literal with `make_equal`; occurrences that arrive later (regrounded
parts, later steps) are treated by the next `translate` call.
-/
import TelModel.Clauses

namespace TelModel

structure StepData where
  literal : Option Int := none
  literals : List Int := []         -- a Python set; kept without duplicates
  todo : List Int := []
  deriving Repr

/-- how `do_translate` provides the literal when there is none yet -/
inductive LitSource where
  | own (fresh : Int)          -- `data.add_literal(backend)`; `fresh` is what `backend.add_atom()` would return
  | assign (l : Int)           -- `data.literal = …`
  deriving Repr

inductive SDOp where
  | addAtom (a : Int)
  | translate (src : LitSource)
  deriving Repr

inductive SDOut where
  | choice (a : Int)           -- `backend.add_rule([a], [], True)`
  | clause (c : Clause)        -- `backend.add_rule([], c)`
  deriving Repr, DecidableEq

def listMin : List Int → Option Int
  | [] => none
  | x :: xs => match listMin xs with
    | none => some x
    | some m => some (if x ≤ m then x else m)

/-- `StepData.add_literal` (called only while `literal` is `None`) -/
def StepData.addLiteral (d : StepData) (fresh : Int) : StepData × List SDOut :=
  match listMin d.literals with
  | some m => ({ d with literal := some m, literals := d.literals.filter (· != m) }, [])
  | none => ({ d with literal := some fresh }, [.choice fresh])

/-- `BodyFormula.add_atom` -/
def StepData.addAtom (d : StepData) (a : Int) : StepData :=
  if d.literals.contains a then d else { d with literals := a :: d.literals, todo := d.todo ++ [a] }

/-- `BodyFormula.translate`: `do_translate` (only the part that provides the literal), then the todo list -/
def StepData.translate (d : StepData) (src : LitSource) : StepData × List SDOut :=
  let (d1, out1) := match d.literal, src with
    | some _, _ => (d, [])
    | none, .own fresh => d.addLiteral fresh
    | none, .assign l => ({ d with literal := some l }, [])
  match d1.literal with
  | some l => ({ d1 with todo := [] }, out1 ++ (d1.todo.flatMap fun a => (makeEqual a l).map SDOut.clause))
  | none => (d1, out1)     -- unreachable: the literal has just been provided

def StepData.step (d : StepData) : SDOp → StepData × List SDOut
  | .addAtom a => (d.addAtom a, [])
  | .translate s => d.translate s

/-- run a sequence of operations on a fresh `StepData`, collecting what is written to the backend -/
def StepData.run (d : StepData) : List SDOp → StepData × List SDOut
  | [] => (d, [])
  | op :: ops =>
    let (d1, o1) := d.step op
    let (d2, o2) := StepData.run d1 ops
    (d2, o1 ++ o2)

end TelModel
