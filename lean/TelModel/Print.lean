/-
Model of `TelApp.print_model` (telingo/__init__.py): shown symbols are grouped by their last (numeric)
argument, that argument is stripped, symbols whose name starts with `__` are hidden, the states 0..h are
printed in order, one line per signature.  clingo's order on symbols is not modelled: each shown symbol
comes with its `rank` in that order (supplied by the harness), and the theorems hold for every ranking.
-/
import TelModel.Py

namespace TelModel

/-- a shown symbol as far as `print_model` looks at it -/
structure ShownSym where
  isFunction : Bool            -- `sym.type == SymbolType.Function`
  name : String
  positive : Bool
  args : List String           -- printed arguments
  lastNum : Option Int         -- value of the last argument if it is a number
  rank : Nat                   -- position of the stripped symbol in clingo's order
  deriving Repr, DecidableEq, Inhabited

/-- the symbol without its time argument, as printed -/
def ShownSym.stripped (s : ShownSym) : String :=
  (if s.positive then "" else "-") ++ s.name ++
    (if s.name == "" then
      -- a tuple: `()`, `(a,)`, `(a,b)`
      (match s.args.dropLast with
       | [] => "()"
       | [a] => "(" ++ a ++ ",)"
       | as => "(" ++ ",".intercalate as ++ ")")
     else if s.args.dropLast.isEmpty then "" else "(" ++ ",".intercalate s.args.dropLast ++ ")")

/-- goes into `table` under its time stamp -/
def ShownSym.timed (s : ShownSym) : Option Int :=
  if s.isFunction && !s.args.isEmpty then s.lastNum else none

def insertByRank (x : ShownSym) : List ShownSym → List ShownSym
  | [] => [x]
  | y :: ys => if x.rank < y.rank then x :: y :: ys else y :: insertByRank x ys

def sortByRank (xs : List ShownSym) : List ShownSym := xs.foldr insertByRank []

/-- the symbols printed under `State k`, in printing order -/
def stateSyms (syms : List ShownSym) (k : Nat) : List ShownSym :=
  (sortByRank (syms.filter fun s => s.timed == some (k : Int))).filter fun s => !(startsWithStr2 s.name)
where
  startsWithStr2 (n : String) : Bool := (n.toList.take 2) == ['_', '_']

def sigOf (s : ShownSym) : String × Nat × Bool := (s.name, s.args.length - 1, s.positive)

/-- the text of one state -/
def renderState (k : Nat) (ss : List ShownSym) : String :=
  let rec go : Option (String × Nat × Bool) → List ShownSym → String
    | _, [] => ""
    | sig, s :: rest =>
      (if some (sigOf s) != sig then "\n " else "") ++ " " ++ s.stripped ++ go (some (sigOf s)) rest
  " State " ++ toString k ++ ":" ++ go none ss ++ "\n"

/-- `print_model` for horizon `h` -/
def printModel (h : Nat) (syms : List ShownSym) : String :=
  String.join ((List.range (h + 1)).map fun k => renderState k (stateSyms syms k))

/-- the structured content: for each state the printed atoms -/
def printedStates (h : Nat) (syms : List ShownSym) : List (Nat × List String) :=
  (List.range (h + 1)).map fun k => (k, (stateSyms syms k).map ShownSym.stripped)

end TelModel
