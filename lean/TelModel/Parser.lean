/-
Model of `TheoryParser` (telingo/transformers/head.py): the stack machine that turns an unparsed theory
term (a sequence of elements, each a list of operators followed by a term) into nested theory functions,
driven by an operator table.  The same machine run with the `#theory` tables (regenerated from the source)
is the model of what gringo's theory-term parser is assumed to compute for body and `&del` formulas; layer
L7 compares it with both real parsers.
-/
import TelModel.Py
import TelModel.Generated.Tables

namespace TelModel
open TelSpec Generated

/-- element of an unparsed theory term: operators, then an operand (here: its index) -/
structure UElem where
  ops : List String
  term : Nat
  deriving Repr, DecidableEq, Inhabited

inductive StackItem where
  | op (name : String) (unary : Bool)
  | term (t : PTree)
  deriving Repr, DecidableEq, Inhabited

def tableFind (tbl : List OpEntry) (op : String) (unary : Bool) : Option OpEntry :=
  tbl.find? fun e => e.op == op && e.unary == unary

/-- `__check`: must the stack be reduced before pushing the binary operator `op`? -/
def pcheck (tbl : List OpEntry) (stack : List StackItem) (op : String) : Py Bool :=
  match stack with
  | _ :: .op pname punary :: _ =>
    match tableFind tbl op false, tableFind tbl pname punary with
    | some e, some pe => pure (decide (pe.prio > e.prio) || (pe.prio == e.prio && e.left == some true))
    | _, _ => throw .keyError
  | _ :: .term _ :: _ => throw .typeError          -- `self.__priority(*term)`: cannot happen (operands alternate)
  | _ => pure false                                  -- len(stack) < 2

/-- `__reduce` (the stack is kept with its top first) -/
def preduce (stack : List StackItem) : Py (List StackItem) :=
  match stack with
  | .term b :: .op name true :: rest => pure (.term (.un name b) :: rest)
  | .term b :: .op name false :: .term a :: rest => pure (.term (.bin name a b) :: rest)
  | _ => throw .indexError

/-- the `while not unary and self.__check(operator): self.__reduce()` loop -/
def reduceWhile (tbl : List OpEntry) (op : String) : Nat → List StackItem → Py (List StackItem)
  | 0, _ => throw .outOfFuel
  | fuel+1, stack => do
    if (← pcheck tbl stack op) then
      let s ← preduce stack
      reduceWhile tbl op fuel s
    else pure stack

/-- the operators of one element, then its term -/
def pushOps (tbl : List OpEntry) : List String → Bool → List StackItem → Py (List StackItem)
  | [], _, stack => pure stack
  | op :: ops, unary, stack => do
    if (tableFind tbl op unary).isNone then throw (.runtime "invalid operator in temporal formula")
    let stack ← if unary then pure stack else reduceWhile tbl op (stack.length + 1) stack
    pushOps tbl ops true (.op op unary :: stack)

def pushElems (tbl : List OpEntry) : List UElem → Bool → List StackItem → Py (List StackItem)
  | [], _, stack => pure stack
  | e :: es, unary, stack => do
    let stack ← pushOps tbl e.ops unary stack
    pushElems tbl es false (.term (.leaf e.term) :: stack)

def reduceAll : Nat → List StackItem → Py (List StackItem)
  | 0, _ => throw .outOfFuel
  | fuel+1, stack =>
    if stack.length > 1 then do
      let s ← preduce stack
      reduceAll fuel s
    else pure stack

/-- `TheoryParser.parse` -/
def stackParse (tbl : List OpEntry) (elems : List UElem) : Py PTree := do
  let stack ← pushElems tbl elems true []
  let stack ← reduceAll (stack.length + 1) stack
  match stack with
  | [.term t] => pure t
  | _ => throw .indexError

/-- the token string of an element list (for the specification reader) -/
def toToks (elems : List UElem) : List PTok :=
  elems.flatMap fun e => e.ops.map PTok.op ++ [PTok.leaf e.term]

def OpEntry.toDoc (e : OpEntry) : DocOp := ⟨e.op, e.unary, e.prio, e.left⟩

end TelModel
