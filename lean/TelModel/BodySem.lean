/-
Semantics of the code-level body formulas on finite traces (`BForm.sem`), and the
*one-step equations* `eqn` — the non-recursive content of each `do_translate` in
`telingo/theory/body.py`: what a formula's literal at a step is made equivalent
to, in terms of literals of other (formula, step) pairs.

The correspondence check evaluates `eqn` on the implementation's own literal
valuation (every answer set of a real run); the theorems in `TelProofs` show that
any valuation solving the equations is the LTL_f / LDL_f semantics.
-/
import TelModel.Body

namespace TelModel
open TelSpec

/-- key of a ground atom in a trace: clingo's printing of the symbol without its time argument -/
def atomKey (name : String) (args : List Sym) (positive : Bool) : String :=
  Sym.toStr (.fn name args positive)

def binSem (op : String) (a b : Bool) : Bool :=
  if op == "&" then a && b
  else if op == "|" then a || b
  else if op == "<-" then a || !b
  else if op == "->" then !a || b
  else if op == "<>" then a == b
  else false

def PTest.toForm : PTest → BForm
  | .atom n a p => .atom n a p
  | .const b => .const b

def PTest.holds (tr : Trace) (k : Nat) : PTest → Bool
  | .atom n a p => tr k (atomKey n a p)
  | .const b => b

/-- `p.runs h tr k j`: some run of the path leads from `k` to `j` inside `0..h` -/
def Path.runs (h : Nat) (tr : Trace) : Path → Nat → Nat → Bool
  | .skip, k, j => j == k + 1 && decide (j ≤ h)
  | .check t, k, j => j == k && t.holds tr k
  | .choice l r, k, j => l.runs h tr k j || r.runs h tr k j
  | .seq l r, k, j => anyUpTo h fun m => l.runs h tr k m && r.runs h tr m j
  | .star p, k, j => starRuns h (p.runs h tr) (h + 1) k j

/-- truth value of a code-level formula at position `k` of a trace of length `h+1`;
    `lv` values the program literals of element conditions (`NumericLiteral`) -/
def BForm.sem (h : Nat) (tr : Trace) (lv : Int → Bool) : BForm → Nat → Bool
  | .atom n a p, k => tr k (atomKey n a p)
  | .numLit l, _ => lv l
  | .const b, _ => b
  | .neg f, k => !(f.sem h tr lv k)
  | .bin op l r, k => binSem op (l.sem h tr lv k) (r.sem h tr lv k)
  | .prev f n w, k => if n ≤ k then f.sem h tr lv (k - n) else w
  | .initially f, _ => f.sem h tr lv 0
  | .next f n w, k => if k + n ≤ h then f.sem h tr lv (k + n) else w
  | .telP2 false l r, k => anyUpTo k fun j => r.sem h tr lv j && allBetween (j+1) k fun i => l.sem h tr lv i
  | .telP2 true l r, k => allUpTo k fun j => r.sem h tr lv j || anyBetween (j+1) k fun i => l.sem h tr lv i
  | .telP1 false r, k => anyUpTo k fun j => r.sem h tr lv j
  | .telP1 true r, k => allUpTo k fun j => r.sem h tr lv j
  | .telN2 false l r, k => anyBetween k h fun j => r.sem h tr lv j && allBetween k (j-1) fun i => i ≥ j || l.sem h tr lv i
  | .telN2 true l r, k => allBetween k h fun j => r.sem h tr lv j || anyBetween k (j-1) fun i => i < j && l.sem h tr lv i
  | .telN1 false r, k => anyBetween k h fun j => r.sem h tr lv j
  | .telN1 true r, k => allBetween k h fun j => r.sem h tr lv j
  | .dia p f, k => anyUpTo h fun j => p.runs h tr k j && f.sem h tr lv j
  | .box p f, k => allUpTo h fun j => !(p.runs h tr k j) || f.sem h tr lv j

/-- right-hand sides of the one-step equations -/
inductive BExpr where
  | const (b : Bool)
  | atomAt (key : String) (k : Nat)          -- truth of a ground atom of the trace
  | lit (l : Int)                            -- a program literal (condition of a theory element)
  | ref (f : BForm) (k : Nat)                -- the literal of another (formula, step)
  | not (e : BExpr)
  | and (a b : BExpr)
  | or (a b : BExpr)
  | iff (a b : BExpr)
  deriving Repr, Inhabited

def BExpr.eval (tr : Trace) (lv : Int → Bool) (v : BForm → Nat → Bool) : BExpr → Bool
  | .const b => b
  | .atomAt key k => tr k key
  | .lit l => lv l
  | .ref f k => v f k
  | .not e => !(e.eval tr lv v)
  | .and a b => a.eval tr lv v && b.eval tr lv v
  | .or a b => a.eval tr lv v || b.eval tr lv v
  | .iff a b => a.eval tr lv v == b.eval tr lv v

def BExpr.refs : BExpr → List (BForm × Nat)
  | .ref f k => [(f, k)]
  | .not e => e.refs
  | .and a b => a.refs ++ b.refs
  | .or a b => a.refs ++ b.refs
  | .iff a b => a.refs ++ b.refs
  | _ => []

def binExpr (op : String) (a b : BExpr) : BExpr :=
  if op == "&" then .and a b
  else if op == "|" then .or a b
  else if op == "<-" then .or a (.not b)
  else if op == "->" then .or (.not a) b
  else if op == "<>" then .iff a b
  else .const false

/-- the common part of `TelFormula._translate`: `pre` is the inductive literal -/
def telStep (dual : Bool) (lhs : Option BExpr) (rhs pre : BExpr) : BExpr :=
  match dual, lhs with
  | false, some l => .or rhs (.and l pre)
  | false, none => .or rhs pre
  | true, some l => .and rhs (.or l pre)
  | true, none => .and rhs pre

/-- `¬ > ⊤` : "there is no next state", as built by `translate_KleeneStarPath` -/
def finalForm : BForm := .neg (.next (.const true) 1 false)

/-- One-step equation of `(f, k)` at horizon `h` (for `k ≤ h`). -/
def eqn (h : Nat) : BForm → Nat → BExpr
  | .atom n a p, k => .atomAt (atomKey n a p) k
  | .numLit l, _ => .lit l
  | .const b, _ => .const b
  | .neg f, k => .not (.ref f k)
  | .bin op l r, k => binExpr op (.ref l k) (.ref r k)
  | .prev f n w, k => if n ≤ k then .ref f (k - n) else .const w
  | .initially f, _ => .ref f 0
  | .next f n w, k => if k + n ≤ h then .ref f (k + n) else .const w
  | .telP2 d l r, k => if k = 0 then .ref r 0 else telStep d (some (.ref l k)) (.ref r k) (.ref (.telP2 d l r) (k - 1))
  | .telP1 d r, k => if k = 0 then .ref r 0 else telStep d none (.ref r k) (.ref (.telP1 d r) (k - 1))
  | .telN2 d l r, k => telStep d (some (.ref l k)) (.ref r k) (.ref (.next (.telN2 d l r) 1 d) k)
  | .telN1 d r, k => telStep d none (.ref r k) (.ref (.next (.telN1 d r) 1 d) k)
  | .dia (.choice l r) f, k => .ref (.bin "|" (.dia r f) (.dia l f)) k
  | .dia (.seq l r) f, k => .ref (.dia l (.dia r f)) k
  | .dia (.check t) f, k => .ref (.bin "&" t.toForm f) k
  | .dia (.star p) f, k => .ref (.bin "&" (.bin "->" finalForm f) (.bin "|" f (.dia p (.dia (.star p) f)))) k
  | .dia .skip f, k => .ref (.next f 1 false) k
  | .box (.choice l r) f, k => .ref (.bin "&" (.box r f) (.box l f)) k
  | .box (.seq l r) f, k => .ref (.box l (.box r f)) k
  | .box (.check t) f, k => .ref (.bin "->" t.toForm f) k
  | .box (.star p) f, k => .ref (.bin "&" (.bin "->" finalForm f) (.bin "&" f (.box p (.box (.star p) f)))) k
  | .box .skip f, k => .ref (.next f 1 true) k

end TelModel
