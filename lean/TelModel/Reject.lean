/-
Model of the acceptance logic of `telingo/transformers/term.py` (`TermTransformer.__get_param`: prime
counting, `_` initially prefix, `__` prefixes, the fail flags) and of the traversal state of
`ProgramTransformer` (program.py) at each syntactic position an atom can occupy.

The three flag expressions passed to the term transformer (`replaceFuture`, `failFuture`, `failPast`) and
the two guards on theory atoms are regenerated from the source (`Generated.Flags`); the table
`Position.flags` — which values `__head`, `__constraint`, `__normal` have when the traversal reaches an atom at
that position — is hand-transcribed from `visit_Rule`, `visit_Literal`, `visit_ConditionalLiteral` and
`is_constraint` / `is_normal`, and validated against the real traversal on the full position × atom-form grid.
-/
import TelModel.Py
import TelSpec.Placement
import TelModel.Generated.Flags
import TelModel.Generated.Tables

namespace TelModel
open Generated TelSpec

def isPrime (c : Char) : Bool := c == '\''

/-- `name.strip("'")` -/
def stripPrimes (cs : List Char) : List Char := ((cs.dropWhile isPrime).reverse.dropWhile isPrime).reverse

def leadingPrimes (cs : List Char) : Nat := (cs.takeWhile isPrime).length

def startsWithStr (cs : List Char) (p : List Char) : Bool := p.isPrefixOf cs
def endsWithStr (cs : List Char) (p : List Char) : Bool := p.reverse.isPrefixOf cs.reverse

structure ParamRes where
  name : String          -- predicate name after rewriting
  shift : Int            -- time offset added to the time parameter
  initially : Bool       -- time parameter replaced by 0
  future : Bool          -- replaced by a `__future_` atom with the extra argument `shift`
  deriving Repr, DecidableEq, Inhabited

/-- `TermTransformer.__get_param` (without the side effects on `future_predicates` / `max_shift`) -/
def getParamL (cs : List Char) (replaceFuture failFuture failPast : Bool) : Py ParamRes :=
  let n := stripPrimes cs
  let l := leadingPrimes cs
  let shift : Int := -(l : Int) + ((cs.length : Int) - (n.length : Int)) + -(l : Int)
  let primed := startsWithStr cs ['\''] || endsWithStr cs ['\'']
  -- initially
  let isInit := startsWithStr n ['_'] && !(startsWithStr n ['_', '_'])
  let n1 := if isInit then n.drop 1 else n
  if isInit && (startsWithStr n1 ['\''] || primed) then
    throw (.runtime "initially operator cannot be used with primes")
  else
  -- finally
  let isFin := endsWithStr n1 ['_'] && !(endsWithStr n1 ['_', '_'])
  let n2 := if isFin then n1.dropLast else n1
  if isFin && (endsWithStr n2 ['\''] || primed) then
    throw (.runtime "finally operator cannot be used with primes")
  else if isFin then throw (.runtime "finally operator not yet supported")
  else if failFuture && decide (shift > 0) then throw (.runtime "future atoms not supported in this context")
  else if failPast && (decide (shift < 0) || isInit) then throw (.runtime "past atoms not supported in this context")
  else
    let fut := decide (shift > 0) && replaceFuture
    pure { name := (if fut then futurePrefix else "") ++ String.ofList n2, shift := shift, initially := isInit, future := fut }

def getParam (name : String) (replaceFuture failFuture failPast : Bool) : Py ParamRes :=
  getParamL name.toList replaceFuture failFuture failPast

/-! ### syntactic positions -/

structure Flags where
  head : Bool
  constraint : Bool
  normal : Bool
  deriving Repr, DecidableEq

/-- the traversal state when an atom at this position is reached -/
def _root_.TelSpec.Position.flags : Position → Flags
  | .normalHead => ⟨true, false, true⟩
  | .disjElem => ⟨true, false, false⟩
  | .disjCond => ⟨false, false, false⟩
  | .choiceElem => ⟨true, false, false⟩
  | .choiceCond => ⟨false, false, false⟩
  | .headAggElem => ⟨true, false, false⟩
  | .headAggCond => ⟨false, false, false⟩
  | .bodyLit => ⟨false, false, true⟩
  | .bodyCondLit => ⟨false, false, true⟩
  | .bodyCondCond => ⟨false, false, true⟩
  | .bodyAggCond => ⟨false, false, true⟩
  | .consLit => ⟨false, true, false⟩
  | .consCondLit => ⟨false, true, false⟩
  | .consCondCond => ⟨false, true, false⟩
  | .consAggCond => ⟨false, true, false⟩
  | .negHead => ⟨false, true, false⟩          -- `not p :- …` is classified as a constraint; the literal resets `__head`
  | .negHeadBody => ⟨false, true, false⟩
  | .negDisjElem => ⟨false, false, false⟩     -- a negative literal inside a disjunction: not a constraint
  | .external => ⟨true, false, false⟩            -- `visit_External` visits the atom as a head
  | .externalBody => ⟨false, false, false⟩
  | .showBody => ⟨false, false, false⟩
  | .weakBody => ⟨false, false, false⟩
  | .heuristicAtom => ⟨false, false, false⟩
  | .heuristicBody => ⟨false, false, false⟩
  | .edgeBody => ⟨false, false, false⟩
  | .projectAtom => ⟨false, false, false⟩
  | .projectBody => ⟨false, false, false⟩
  | .minimizeBody => ⟨false, false, false⟩
  | .telCondCons => ⟨false, true, false⟩
  | .telCondNeg => ⟨false, false, true⟩

/-- the shape of a statement as far as `is_constraint` / `is_normal` look at it -/
structure StmtShape where
  isRule : Bool
  headIsLiteral : Bool := false
  atomIsBoolConst : Bool := false
  atomValue : Bool := false
  atomIsSymbolic : Bool := false
  signNone : Bool := true
  deriving Repr, DecidableEq

def StmtShape.isConstraint (s : StmtShape) : Bool :=
  Generated.isConstraint s.isRule s.headIsLiteral s.atomIsBoolConst s.atomValue s.atomIsSymbolic s.signNone
def StmtShape.isNormal (s : StmtShape) : Bool :=
  Generated.isNormal s.isRule s.headIsLiteral s.atomIsBoolConst s.atomValue s.atomIsSymbolic s.signNone

/-- the statement a position lives in, as clingo's parser delivers it: `h :- B` with a positive symbolic head literal,
    a rule whose head is a disjunction / choice / aggregate (not a literal), `:- B` (head literal `#false`),
    `not h :- B` (head literal with a sign), or a statement that is not a rule -/
def _root_.TelSpec.Position.stmt : Position → StmtShape
  | .normalHead | .bodyLit | .bodyCondLit | .bodyCondCond | .bodyAggCond | .telCondNeg =>
      { isRule := true, headIsLiteral := true, atomIsSymbolic := true }
  | .disjElem | .disjCond | .choiceElem | .choiceCond | .headAggElem | .headAggCond | .negDisjElem =>
      { isRule := true }
  | .consLit | .consCondLit | .consCondCond | .consAggCond | .telCondCons =>
      { isRule := true, headIsLiteral := true, atomIsBoolConst := true, atomValue := false }
  | .negHead | .negHeadBody =>
      { isRule := true, headIsLiteral := true, atomIsSymbolic := true, signNone := false }
  | .external | .externalBody | .showBody | .weakBody | .heuristicAtom | .heuristicBody | .edgeBody
  | .projectAtom | .projectBody | .minimizeBody =>
      { isRule := false }

/-- is an atom with this predicate name accepted at this position? -/
def acceptsAtom (pos : Position) (name : String) : Py ParamRes :=
  let f := pos.flags
  getParam name (replaceFuture f.head f.constraint f.normal) (failFuture f.head f.constraint f.normal)
    (failPast f.head f.constraint f.normal)

/-- theory atoms: `&tel` / `&del` in a body are rejected in a positive body literal of a non-constraint -/
def telBodyAccepted (negated constraintRule : Bool) : Bool := !(telRejected negated constraintRule)
def delBodyAccepted (negated constraintRule : Bool) : Bool := !(delRejected negated constraintRule)

end TelModel
