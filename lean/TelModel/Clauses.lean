/-
Clause level of `telingo/theory/body.py` and `formula.py`: the integrity constraints the translation writes
through clingo's backend for one (formula, step) pair, as a function of the program literals involved —
`make_equal`, `make_disjunction`, `BooleanFormula.do_translate`, `TelFormula._translate`.
A constraint is the list of its body literals (positive integer: atom, negative: `not` atom).
-/
import TelModel.BodySem

namespace TelModel

abbrev Clause := List Int

/-- `make_equal(backend, a, b)` -/
def makeEqual (a b : Int) : List Clause := [[a, -b], [-a, b]]

/-- `make_disjunction(backend, e, a, b)` -/
def makeDisjunction (e a b : Int) : List Clause := [[e, -a, -b], [-e, a], [-e, b]]

/-- `BooleanFormula.do_translate` for the literal `lit` of the formula and the literals of its operands -/
def boolClauses (op : String) (lit lhs rhs : Int) : List Clause :=
  if op != "<>" then
    if op == "&" then makeDisjunction (-lit) (-lhs) (-rhs)
    else if op == "<-" then makeDisjunction lit lhs (-rhs)
    else if op == "->" then makeDisjunction lit (-lhs) rhs
    else makeDisjunction lit lhs rhs
  else [[-lit, rhs, lhs], [-lit, -rhs, -lhs], [lit, rhs, -lhs], [lit, -rhs, lhs]]

/-- `TelFormula._translate`: `dual` for trigger / release / always, `lhs = none` for the unary operators,
    `pre` the literal of the inductive step -/
def telClauses (dual : Bool) (lit : Int) (lhs : Option Int) (rhs pre : Int) : List Clause :=
  let lit' := if dual then -lit else lit
  let rhs' := if dual then -rhs else rhs
  let pre' := if dual then -pre else pre
  let lhs' := if dual then lhs.map (fun l => -l) else lhs
  [[-lit', rhs'], [-rhs', -pre', lit']] ++
    (match lhs' with
     | some l => [[-lit', l, pre'], [-rhs', -l, lit']]
     | none => [[-lit', pre']])

/-! ### meaning -/

/-- truth of a program literal under a valuation of the atoms -/
def litTrue (v : Nat → Bool) (l : Int) : Bool := if l > 0 then v l.toNat else !(v (-l).toNat)

/-- the integrity constraint is not violated -/
def Clause.ok (v : Nat → Bool) (c : Clause) : Bool := !(c.all (litTrue v))

def clausesOk (v : Nat → Bool) (cs : List Clause) : Bool := cs.all (Clause.ok v)

end TelModel
