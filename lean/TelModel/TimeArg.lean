/-
Model of `TermTransformer` (telingo/transformers/term.py) on the term of an atom: `visit_Function` (rename the
predicate, append the time parameters), `visit_UnaryOperation` (classical negation flips the sign recorded for
future predicates), pools (every alternative is visited), and the side effects of `__get_param` on
`future_predicates` and `max_shift`.  The arguments of a predicate are not visited (they carry no time).
-/
import TelModel.Reject

namespace TelModel
open TelSpec Generated

/-- the term of an atom as clingo's parser delivers it: a predicate with arguments (kept as text), classical
    negation, a pool of alternatives -/
inductive ATerm where
  | fn (name : String) (args : List String)
  | neg (t : ATerm)
  | pool (ts : List ATerm)
  deriving Repr, Inhabited

/-- a time parameter appended to the arguments -/
inductive TParam where
  | num (n : Int)          -- `0` of the initially operator, or the shift of a `__future_` atom
  | time (shift : Int)     -- `__t` (shift 0) or `__t + shift`
  deriving Repr, DecidableEq, Inhabited

/-- result terms: predicates carry their original arguments and the appended parameters -/
inductive RTerm where
  | fn (name : String) (args : List String) (params : List TParam)
  | neg (t : RTerm)
  | pool (ts : List RTerm)
  deriving Repr, Inhabited

structure TState where
  futures : List (String × Nat × Bool × Int) := []     -- `future_predicates` (a Python set: compared as a set)
  maxShift : Int := 0                                   -- `max_shift[0]`
  deriving Repr, Inhabited

/-- the parameters `__get_param` returns, and its side effects -/
def paramsOf (r : ParamRes) : List TParam :=
  if r.future then [.num r.shift, .time r.shift]
  else if r.shift != 0 then [.time r.shift]
  else if r.initially then [.num 0]
  else [.time 0]

def stepState (st : TState) (r : ParamRes) (_origName : String) (arity : Nat) (positive : Bool) : TState :=
  if r.shift > 0 then
    if r.future then
      let key := ((r.name.drop futurePrefix.length).toString, arity, positive, r.shift)
      { st with futures := if st.futures.contains key then st.futures else st.futures ++ [key] }
    else { st with maxShift := max st.maxShift r.shift }
  else st

mutual
/-- `TermTransformer.visit` on the term of an atom; `positive` is `self.__positive` -/
def addTime (rf ff fp : Bool) (positive : Bool) (st : TState) : ATerm → Py (RTerm × TState)
  | .fn name args => do
      let r ← getParam name rf ff fp
      pure (.fn r.name args (paramsOf r), stepState st r name args.length positive)
  | .neg t => do
      let (t', st') ← addTime rf ff fp (!positive) st t
      pure (.neg t', st')
  | .pool ts => do
      let (ts', st') ← addTimes rf ff fp positive st ts
      pure (.pool ts', st')
def addTimes (rf ff fp : Bool) (positive : Bool) (st : TState) : List ATerm → Py (List RTerm × TState)
  | [] => pure ([], st)
  | t :: ts => do
      let (t', st1) ← addTime rf ff fp positive st t
      let (ts', st2) ← addTimes rf ff fp positive st1 ts
      pure (t' :: ts', st2)
end

/-! ### the instances of a term: what the pool and the classical negation stand for -/

/-- ground reading of an atom term: sign, predicate, arguments -/
structure Inst where
  positive : Bool
  name : String
  args : List String
  deriving Repr, DecidableEq, Inhabited

structure RInst where
  positive : Bool
  name : String
  args : List String
  params : List TParam
  deriving Repr, DecidableEq, Inhabited

mutual
def ATerm.insts (positive : Bool) : ATerm → List Inst
  | .fn name args => [⟨positive, name, args⟩]
  | .neg t => t.insts (!positive)
  | .pool ts => ATerm.instsL positive ts
def ATerm.instsL (positive : Bool) : List ATerm → List Inst
  | [] => []
  | t :: ts => t.insts positive ++ ATerm.instsL positive ts
end

mutual
def RTerm.insts (positive : Bool) : RTerm → List RInst
  | .fn name args params => [⟨positive, name, args, params⟩]
  | .neg t => t.insts (!positive)
  | .pool ts => RTerm.instsL positive ts
def RTerm.instsL (positive : Bool) : List RTerm → List RInst
  | [] => []
  | t :: ts => t.insts positive ++ RTerm.instsL positive ts
end

/-- what one instance becomes: its own name decides its time parameters -/
def stamp (rf ff fp : Bool) (i : Inst) : Py RInst := do
  let r ← getParam i.name rf ff fp
  pure ⟨i.positive, r.name, i.args, paramsOf r⟩

/-- the state after handling the instances one by one -/
def stampState (rf ff fp : Bool) : TState → List Inst → Py TState
  | st, [] => pure st
  | st, i :: is => do
      let r ← getParam i.name rf ff fp
      stampState rf ff fp (stepState st r i.name i.args.length i.positive) is

/-! ### statements as sequences of atom occurrences (the traversal of `ProgramTransformer`) -/

/-- an atom occurrence of a statement: the flags of its position (`replace_future`, `fail_future`, `fail_past`), its sign
    context and the term -/
structure AtomOcc where
  rf : Bool
  ff : Bool
  fp : Bool
  pos : Bool
  term : ATerm

/-- the traversal of a statement: its atoms rewritten in visit order, the state threaded through -/
def addTimeStmt : List AtomOcc → TState → Py (List RTerm × TState)
  | [], st => pure ([], st)
  | o :: os, st => do
    let (r, st1) ← addTime o.rf o.ff o.fp o.pos st o.term
    let (rs, st2) ← addTimeStmt os st1
    pure (r :: rs, st2)

/-- the statements of a program one after the other, one bookkeeping state -/
def addTimeProg : List (List AtomOcc) → TState → Py (List (List RTerm) × TState)
  | [], st => pure ([], st)
  | s :: ss, st => do
    let (r, st1) ← addTimeStmt s st
    let (rs, st2) ← addTimeProg ss st1
    pure (r :: rs, st2)


end TelModel
