/-
Model of one call of `Theory.translate` (telingo/theory/__init__.py) as far as the body theory atoms are concerned, composed
from the models of the todo list (`addTodo`) and of `StepData`:

    for atom in prg.theory_atoms:                 -- `&tel(step){…}` / `&del(step){…}` with program literal `atom.literal`
        formula = translate_elements(…)           -- interned by its representation
        formula.add_atom(atom.literal, step)
        self.add_todo(formula, step)
    todo, self.__todo = self.__todo, []
    for step, formula in todo: formula.translate(ctx, step)

A (formula, step) pair is identified by `TodoKey = (step, representation)`.  What a call does to the `StepData` of the pairs is a
list of keyed operations: the registrations of the theory atoms, then the `body` — the translations of the queued pairs (pairs
queued by earlier calls — next placeholders — included) together with everything they set off: translations of sub-formulas
and the registrations a box / diamond formula makes on its own pair (`self.add_atom(…)` with the literal of its unfolding,
treated when its `translate` returns).  The body is left arbitrary; what the theorems need from it is stated as `GoodCall`
and checked on every call of the real method by the correspondence check.
-/
import TelModel.Todo
import TelModel.StepData

namespace TelModel

structure TheoryCall where
  atoms : List (TodoKey × Int)               -- the ground theory atoms met in this call: pair and program literal
  pending : List TodoKey                     -- pairs queued before the loop starts (by `Next.do_translate` of the previous call)
  body : List (TodoKey × SDOp)               -- the operations of the second loop, nested calls included, in the order they happen

/-- the queue when the loop over the theory atoms is over -/
def TheoryCall.queue (c : TheoryCall) : List TodoKey := todoAfter (c.pending ++ c.atoms.map (·.1))

/-- the keyed `StepData` operations of the call -/
def TheoryCall.ops (c : TheoryCall) : List (TodoKey × SDOp) :=
  c.atoms.map (fun (k, a) => (k, SDOp.addAtom a)) ++ c.body

/-- the operations that concern one pair -/
def projKey (k : TodoKey) (l : List (TodoKey × SDOp)) : List SDOp := (l.filter (fun x => x.1 == k)).map (·.2)

end TelModel
