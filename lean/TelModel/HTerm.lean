/-
Parsed theory terms as the transformers of `telingo/transformers/head.py` look at them (shared by the models of
`theory_term_to_term` and `get_variables`).
-/
namespace TelModel

/-- a parsed theory term as far as the conversion looks at it -/
inductive HTerm where
  | num (n : Int)                       -- SymbolicTerm with a number
  | var (x : String)                    -- Variable
  | sym (s : String)                    -- any other SymbolicTerm (constant, string, #inf, #sup), kept as text
  | fn (name : String) (args : List HTerm)   -- TheoryFunction
  | tuple (args : List HTerm)           -- TheorySequence of type Tuple
  | seq (args : List HTerm)             -- TheorySequence of type List or Set
  deriving Repr, Inhabited

end TelModel
