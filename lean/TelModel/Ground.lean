/-
Mechanism-level model of what telingo makes clingo hold at horizon `h` for a ground
temporal program of the rule fragment (DESIGN §4.3):

  * `xform`     — the classification `transformers/program.py` performs on a rule (final part →
                  always + `__final(t)`, future heads → `__future_*`, look-ahead constraints → two
                  extra program parts)
  * `partsOf`   — the `(root, name, range)` list and `futureSigs` returned by `transform`
  * `groundAt`  — the instances produced by one `ground` call of `imain` (parts chosen by the
                  *generated* `partCond` through `groundParts`); atoms whose time lies outside `0..s`
                  at grounding time are frozen to false for that instance
  * `G`         — the accumulated ground program after the incremental history of steps `0..h`,
                  with `__final(h)` the only true external and the assumptions on `__future_*` atoms
-/
import TelModel.Imain

namespace TelModel
open TelSpec Generated

/-- ground atoms of the generated ASP program -/
inductive GAtom where
  | user (a : String) (k : Int)
  | initial (k : Int)
  | final (k : Int)
  | future (a : String) (n : Nat) (k : Int)
  deriving Repr, DecidableEq, Inhabited

structure GRule where
  head : List GAtom
  choice : Bool := false
  pos : List GAtom := []
  neg : List GAtom := []
  nneg : List GAtom := []
  deriving Repr, DecidableEq, Inhabited

/-- the three roots a program part can have after rewriting -/
inductive Root where
  | initial | always | dynamic
  deriving Repr, DecidableEq, Inhabited

def Root.name : Root → String
  | .initial => "initial"
  | .always => "always"
  | .dynamic => "dynamic"

def rootOf : Part → Root
  | .initial => .initial
  | .always => .always
  | .dynamic => .dynamic
  | .final => .always

def isConstraintHead : Head → Bool
  | .falsum => true
  | .nlit _ _ _ => true
  | _ => false

/-- `max_shift` of a rule: the largest look-ahead of a future atom that is not replaced -/
def maxShift (r : TRule) : Nat :=
  let bs := r.body.map fun l => match l with
    | .atom _ _ sh => sh.toNat
    | _ => 0
  let hd := match r.head with
    | .nlit _ _ n => n
    | _ => 0
  bs.foldl max hd

/-- look-ahead depth if the rule is moved to the extra parts, else 0 -/
def lookahead (r : TRule) : Nat :=
  if isConstraintHead r.head && r.part != .final then maxShift r else 0

/-- kinds of program parts: the root part itself, and the two extra parts of look-ahead constraints
    of depth `n > 0`: `root_0_{n-1}` (re-grounded, guarded by `__final(u)`) and `root_n` (grounded once) -/
inductive PartKind where
  | std
  | temp (n : Nat)
  | perm (n : Nat)
  deriving Repr, DecidableEq, Inhabited

structure SPart where
  root : Root
  kind : PartKind
  deriving Repr, DecidableEq, Inhabited

def SPart.name (p : SPart) : String :=
  match p.kind with
  | .std => p.root.name
  | .temp n => p.root.name ++ "_0_" ++ toString (n - 1)
  | .perm n => p.root.name ++ "_" ++ toString n

def SPart.range (p : SPart) : List Int :=
  match p.kind with
  | .std => [0]
  | .temp n => (List.range n).map Int.ofNat
  | .perm n => [(n : Int)]

def SPart.toSpec (p : SPart) : PartSpec := ⟨p.root.name, p.name, p.range⟩

/-- `(root, shift)` keys of `constraint_parts`, in first-occurrence order (dict insertion order) -/
def lookKeys (P : TProg) : List (Root × Nat) :=
  P.foldl (fun acc r =>
    let n := lookahead r
    if n > 0 && !(acc.contains (rootOf r.part, n)) then acc ++ [(rootOf r.part, n)] else acc) []

/-- the program parts, structured -/
def spartsOf (P : TProg) : List SPart :=
  (lookKeys P).flatMap (fun (root, n) => [⟨root, .temp n⟩, ⟨root, .perm n⟩]) ++
  [⟨.always, .std⟩, ⟨.dynamic, .std⟩, ⟨.initial, .std⟩]

/-- the `reground_parts` list returned by `transform` -/
def partsOf (P : TProg) : List PartSpec := (spartsOf P).map SPart.toSpec

/-- future heads `(atom, n)` -/
def futureHeads (P : TProg) : List (String × Nat) :=
  P.foldl (fun acc r => match r.head with
    | .atom a n => if n > 0 && !(acc.contains (a, n)) then acc ++ [(a, n)] else acc
    | _ => acc) []

/-! ### instances -/

/-- a literal of a ground body: `none` = true (dropped), `some none` = false (rule dropped) -/
inductive LitRes where
  | tt | ff
  | pos (a : GAtom) | neg (a : GAtom) | nneg (a : GAtom)

def known (s : Nat) (j : Int) : Bool := decide (0 ≤ j) && decide (j ≤ (s : Int))

def signLit (sg : Sign) (kn : Bool) (a : GAtom) : LitRes :=
  match sg, kn with
  | .pos, true => .pos a
  | .pos, false => .ff
  | .not, true => .neg a
  | .not, false => .tt
  | .notnot, true => .nneg a
  | .notnot, false => .ff

def signConst (sg : Sign) (b : Bool) : LitRes :=
  match sg with
  | .pos => if b then .tt else .ff
  | .not => if b then .ff else .tt
  | .notnot => if b then .tt else .ff

/-- body literal of the instance with time parameter `t`, grounded at step `s` -/
def litAt (s : Nat) (t : Int) : BLit → LitRes
  | .atom sg a sh => signLit sg (known s (t + sh)) (.user a (t + sh))
  | .init sg a => signLit sg true (.user a 0)
  | .kw sg .kinitial => signLit sg true (.initial t)
  | .kw sg .kfinal => signLit sg true (.final t)
  | .kw sg .ktrue => signConst sg true
  | .kw sg .kfalse => signConst sg false
  | .tel _ _ => .ff       -- not in the rule fragment
  | .del _ _ => .ff

/-- assemble a rule from a head and evaluated literals; `none` when some literal is false -/
def mkRule (head : List GAtom) (choice : Bool) (lits : List LitRes) : Option GRule :=
  if lits.any (fun l => match l with | .ff => true | _ => false) then none else
  some { head := head, choice := choice,
         pos := lits.filterMap (fun l => match l with | .pos a => some a | _ => none),
         neg := lits.filterMap (fun l => match l with | .neg a => some a | _ => none),
         nneg := lits.filterMap (fun l => match l with | .nneg a => some a | _ => none) }

/-- the instance of rule `r` with time parameter `t` grounded at step `s`; `guard` is the extra
    `__final(u)` literal of a temporary look-ahead copy -/
def instAt (s : Nat) (t : Int) (guard : Option Int) (r : TRule) : Option GRule :=
  let body := r.body.map (litAt s t)
  let body := if r.part == .final then body ++ [LitRes.pos (.final t)] else body
  let body := match guard with | some u => body ++ [LitRes.pos (.final u)] | none => body
  match r.head with
  | .atom a n => mkRule [if n = 0 then .user a t else .future a n (t + n)] false body
  | .disj as => mkRule (as.map fun a => .user a t) false body
  | .choice as => mkRule (as.map fun a => .user a t) true body
  | .falsum => mkRule [] false body
  | .nlit sg a n =>
      -- `not p :- B`  is  `:- B, not not p` ;  `not not p :- B`  is  `:- B, not p`
      let flip : Sign := match sg with | .not => .notnot | .notnot => .not | .pos => .pos
      mkRule [] false (body ++ [signLit flip (known s (t + n)) (.user a (t + n))])
  | .tel _ => none

/-- rules living in a program part (with their guard flag) -/
def rulesOfPart (P : TProg) (p : SPart) : List (TRule × Bool) :=
  P.filterMap fun r =>
    if rootOf r.part != p.root then none else
    match p.kind with
    | .std => if lookahead r = 0 then some (r, false) else none
    | .temp n => if lookahead r = n && n > 0 then some (r, true) else none
    | .perm n => if lookahead r = n && n > 0 then some (r, false) else none

/-- the part instances `(part, t)` selected at step `s` by the generated `partCond` -/
def selected (P : TProg) (s : Nat) : List (SPart × Int) :=
  (spartsOf P).flatMap fun p => p.range.filterMap fun i =>
    if partCond p.root.name (s : Int) i then some (p, (s : Int) - i) else none

/-- everything one `ground(parts)` call at step `s` adds -/
def groundAt (P : TProg) (s : Nat) : List GRule :=
  (selected P s).flatMap fun (p, t) =>
    ((rulesOfPart P p).filterMap fun (r, guarded) =>
      instAt s t (if guarded then some (s : Int) else none) r) ++
    (if p = ⟨.always, .std⟩ then
      (futureHeads P).map fun (a, n) => ({ head := [.user a t], pos := [.future a n t] } : GRule)
     else []) ++
    (if p = ⟨.initial, .std⟩ then [({ head := [.initial t] } : GRule)] else [])

/-- rules accumulated over the incremental history `0..h` -/
def accRules (P : TProg) : Nat → List GRule
  | 0 => groundAt P 0
  | h+1 => accRules P h ++ groundAt P (h+1)

/-- future atoms that may be derived, with their time -/
def futureAtoms (rs : List GRule) : List GAtom :=
  (rs.flatMap fun r => r.head.filter fun a => match a with | .future _ _ _ => true | _ => false).eraseDups

/-- The program clingo solves at horizon `h`: accumulated rules, `__final(h)` true (the external of
    the current step; those of earlier steps were released), and the assumptions that falsify the
    `__future_*` atoms whose time lies beyond `h`. -/
def G (P : TProg) (h : Nat) : List GRule :=
  accRules P h ++ [({ head := [.final h] } : GRule)] ++
  ((futureAtoms (accRules P h)).filterMap fun a => match a with
    | .future x n k => if assumeCond k (h : Int) then some ({ head := [], pos := [.future x n k] } : GRule) else none
    | _ => none)

/-! ### printing as plain ASP (for layer L5) -/

def GAtom.toAsp : GAtom → String
  | .user a k => s!"u({Sexp.quote a},{k})"
  | .initial k => s!"xi({k})"
  | .final k => s!"xf({k})"
  | .future a n k => s!"xu({Sexp.quote a},{n},{k})"

def GRule.toAsp (r : GRule) : String :=
  let hd := if r.choice then "{" ++ "; ".intercalate (r.head.map GAtom.toAsp) ++ "}"
            else "; ".intercalate (r.head.map GAtom.toAsp)
  let body := r.pos.map GAtom.toAsp ++ r.neg.map (fun a => "not " ++ a.toAsp) ++ r.nneg.map (fun a => "not not " ++ a.toAsp)
  if body.isEmpty then (if hd.isEmpty then ":- #true." else hd ++ ".")
  else hd ++ " :- " ++ ", ".intercalate body ++ "."

end TelModel
