/-
Model of `TheoryTermToTermTransformer` (telingo/transformers/head.py): the conversion of a (parsed) theory term inside a
head formula — the arguments of its atoms, the prefix of an n-fold next — into a plain term: `-`/`+` become arithmetic
(constants are folded), tuples become term tuples, other theory functions become functions, names of temporal operators
and list / set sequences are rejected.
-/
import TelModel.HTerm
import TelModel.Parser
import TelModel.Generated.Tables

namespace TelModel
open Generated

/-- a plain term -/
inductive PTerm where
  | num (n : Int)
  | var (x : String)
  | sym (s : String)
  | fn (name : String) (args : List PTerm)
  | neg (t : PTerm)                     -- UnaryOperation Minus
  | bin (plus : Bool) (l r : PTerm)     -- BinaryOperation Plus / Minus
  deriving Repr, Inhabited

def PTerm.isNum : PTerm → Option Int
  | .num n => some n
  | _ => none

/-- `(x.name, binary) in TheoryParser.table or (x.name, unary) in TheoryParser.table` -/
def isOperatorName (tbl : List OpEntry) (name : String) : Bool :=
  (tableFind tbl name false).isSome || (tableFind tbl name true).isSome

/-- `-` with one argument, `+` / `-` with two: the arithmetic branches of `visit_TheoryFunction` -/
def isArith (name : String) (arity : Nat) : Bool :=
  (name == "-" && arity == 1) || ((name == "+" || name == "-") && arity == 2)

/-- the arithmetic branches on the converted arguments: constants are folded -/
def combine (name : String) (cs : List PTerm) : PTerm :=
  match cs with
  | [rhs] =>
      match rhs.isNum with
      | some n => .num (-n)
      | none => .neg rhs
  | [lhs, rhs] =>
      match lhs.isNum, rhs.isNum with
      | some l, some r => .num (if name == "+" then l + r else l - r)
      | _, _ => .bin (name == "+") lhs rhs
  | _ => .fn name cs

mutual
/-- `TheoryTermToTermTransformer.visit` -/
def convTerm (tbl : List OpEntry) : HTerm → Py PTerm
  | .num n => pure (.num n)
  | .var x => pure (.var x)
  | .sym s => pure (.sym s)
  | .tuple args => do pure (.fn "" (← convTerms tbl args))
  | .seq _ => throw (.runtime "invalid term")
  | .fn name args =>
      if isArith name args.length then do pure (combine name (← convTerms tbl args))
      else if isOperatorName tbl name then throw (.runtime "invalid term")
      else do pure (.fn name (← convTerms tbl args))
def convTerms (tbl : List OpEntry) : List HTerm → Py (List PTerm)
  | [] => pure []
  | t :: ts => do
      let t' ← convTerm tbl t
      let ts' ← convTerms tbl ts
      pure (t' :: ts')
end

/-! ### what the terms stand for -/

/-- ground values: numbers, other constants, function symbols (with a classical sign) -/
inductive GVal where
  | num (n : Int)
  | sym (s : String)
  | fn (name : String) (args : List GVal) (positive : Bool)
  deriving Repr, Inhabited

/-- gringo's unary minus: arithmetic on numbers, classical negation on (named) function symbols, undefined otherwise -/
def gNeg : GVal → Option GVal
  | .num n => some (.num (-n))
  | .fn name args p => if name == "" then none else some (.fn name args (!p))
  | .sym _ => none

/-- gringo's `+` / `-`: defined on numbers only -/
def gBin (plus : Bool) : GVal → GVal → Option GVal
  | .num a, .num b => some (.num (if plus then a + b else a - b))
  | _, _ => none

mutual
/-- value of a plain term under an assignment of the variables -/
def PTerm.eval (σ : String → GVal) : PTerm → Option GVal
  | .num n => some (.num n)
  | .var x => some (σ x)
  | .sym s => some (.sym s)
  | .fn name args => do pure (.fn name (← PTerm.evalL σ args) true)
  | .neg t => do gNeg (← PTerm.eval σ t)
  | .bin plus l r => do gBin plus (← PTerm.eval σ l) (← PTerm.eval σ r)
def PTerm.evalL (σ : String → GVal) : List PTerm → Option (List GVal)
  | [] => some []
  | t :: ts => do
      let v ← PTerm.eval σ t
      let vs ← PTerm.evalL σ ts
      pure (v :: vs)
end

/-- the arithmetic reading on the values of the arguments -/
def gCombine (name : String) (vs : List GVal) : Option GVal :=
  match vs with
  | [v] => gNeg v
  | [l, r] => gBin (name == "+") l r
  | _ => none

mutual
/-- the reading of a theory term inside a head formula: `-` and `+` are arithmetic, tuples are tuples -/
def HTerm.eval (σ : String → GVal) : HTerm → Option GVal
  | .num n => some (.num n)
  | .var x => some (σ x)
  | .sym s => some (.sym s)
  | .tuple args => do pure (.fn "" (← HTerm.evalL σ args) true)
  | .seq _ => none
  | .fn name args =>
      if isArith name args.length then do gCombine name (← HTerm.evalL σ args)
      else do pure (.fn name (← HTerm.evalL σ args) true)
def HTerm.evalL (σ : String → GVal) : List HTerm → Option (List GVal)
  | [] => some []
  | t :: ts => do
      let v ← HTerm.eval σ t
      let vs ← HTerm.evalL σ ts
      pure (v :: vs)
end

end TelModel
