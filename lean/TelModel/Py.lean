/-
Python-level vocabulary shared by the generated and the hand-written model:
exceptions, the short-circuit connectives, `int(...)`, `str.upper()`.

`RuntimeError` is what telingo raises on purpose; every other constructor is an
*internal* error (the kind C15 forbids).
-/
import TelSpec

namespace TelModel

inductive PyErr where
  | runtime (msg : String)      -- RuntimeError raised by telingo itself
  | attributeError | typeError | valueError | assertionError | keyError | indexError
  | outOfFuel                   -- model artefact: a fuelled loop ran out (proved unreachable where it matters)
  deriving Repr, DecidableEq, Inhabited

def PyErr.isInternal : PyErr → Bool
  | .runtime _ => false
  | _ => true

def PyErr.tag : PyErr → String
  | .runtime _ => "RuntimeError"
  | .attributeError => "Internal:AttributeError"
  | .typeError => "Internal:TypeError"
  | .valueError => "Internal:ValueError"
  | .assertionError => "Internal:AssertionError"
  | .keyError => "Internal:KeyError"
  | .indexError => "Internal:IndexError"
  | .outOfFuel => "Internal:OutOfFuel"

abbrev Py := Except PyErr

def pyAnd (a b : Py Bool) : Py Bool := do if (← a) then b else pure false
def pyOr (a b : Py Bool) : Py Bool := do if (← a) then pure true else b
def pyNot (a : Py Bool) : Py Bool := do pure (!(← a))

/-- `x < y` where `y` may be `None` (TypeError in Python 3) -/
def pyLtOpt (x : Int) (y : Option Int) : Py Bool :=
  match y with
  | some v => pure (decide (x < v))
  | none => throw .typeError

export TelSpec (SolveResult)

/-- truthiness of `ret.satisfiable` / `ret.unsatisfiable` / `ret.unknown` -/
def _root_.TelSpec.SolveResult.attr (r : SolveResult) (name : String) : Py Bool :=
  match name with
  | "satisfiable" => pure (r == .sat)
  | "unsatisfiable" => pure (r == .unsat)
  | "unknown" => pure (r == .unknown)
  | _ => throw .attributeError

/-- attribute read on `ret`, which is `None` before the first solve call -/
def retAttr (ret : Option SolveResult) (name : String) : Py Bool :=
  match ret with
  | some r => r.attr name
  | none => throw .attributeError

/-! ### `int(str)` for the decimal subset: optional surrounding ASCII blanks, optional sign,
digits with single underscores between digits. -/

def isBlank (c : Char) : Bool := c == ' ' || c == '\t' || c == '\n' || c == '\r' || c == '\x0b' || c == '\x0c'

def stripBlanks (cs : List Char) : List Char :=
  ((cs.dropWhile isBlank).reverse.dropWhile isBlank).reverse

/-- digits with single underscores strictly between digits -/
def digitsVal : List Char → Option Nat → Bool → Option Nat
  | [], acc, lastUnderscore => if lastUnderscore then none else acc
  | c :: cs, acc, lastUnderscore =>
    if c.isDigit then digitsVal cs (some ((acc.getD 0) * 10 + (c.toNat - '0'.toNat))) false
    else if c == '_' then
      match acc with
      | none => none
      | some _ => if lastUnderscore then none else digitsVal cs acc true
    else none

/-- optional sign -/
def signSplit : List Char → Bool × List Char
  | '-' :: r => (true, r)
  | '+' :: r => (false, r)
  | r => (false, r)

def pyInt (s : String) : Py Int :=
  match digitsVal (signSplit (stripBlanks s.toList)).2 none false with
  | some n => .ok (if (signSplit (stripBlanks s.toList)).1 then -(n : Int) else (n : Int))
  | none => .error .valueError

/-- `s.startswith(c)` / `s.endswith(c)` for a one-character `c`, on the character list (kernel-reducible) -/
def startsWithChar (s : String) (c : Char) : Bool := s.toList.head? == some c
def endsWithChar (s : String) (c : Char) : Bool := s.toList.getLast? == some c
/-- `s[1:-1]` -/
def stripEnds (s : String) : String := String.ofList (s.toList.drop 1).dropLast

def pyUpper (s : String) : String := s.toUpper

end TelModel
