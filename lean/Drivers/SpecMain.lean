/-
`telspec`: executable specification.  One s-expression command per input line,
one output line per command.

  (tsm h (atoms...) (rules...))          -> temporal stable models, `a@k a@k|a@k ...` (sorted), or `-` if none
  (ltl h f trace...)                     -> per trace the bits of docSem at k = 0..h, space separated
  (ldl h f trace...)                     -> same for ldlSem
  (tht h f here there)                   -> bits of tht at k = 0..h
-/
import TelSpec

open TelSpec

def bits (h : Nat) (p : Nat → Bool) : String :=
  String.ofList ((List.range (h+1)).map fun k => if p k then '1' else '0')

def showModel (h : Nat) (atoms : List String) (m : Nat) : String :=
  " ".intercalate ((maskAtoms h atoms m).map fun (a, k) => s!"{a}@{k}")

def handle (s : Sexp) : D String :=
  match s with
  | .list [.atom "tsm", h, as, rs] => do
      let h ← decNat h
      let atoms ← decList decStr as
      let P ← decList decRule rs
      let ms := tsmMasks h atoms P
      if ms.isEmpty then pure "-" else
      pure ("|".intercalate (ms.map (showModel h atoms)))
  | .list (.atom "ltl" :: h :: f :: trs) => do
      let h ← decNat h
      let f ← decSForm f
      let trs ← trs.mapM decTrace
      pure (" ".intercalate (trs.map fun tr => bits h (docSem h tr f)))
  | .list (.atom "ldl" :: h :: f :: trs) => do
      let h ← decNat h
      let f ← decDForm f
      let trs ← trs.mapM decTrace
      pure (" ".intercalate (trs.map fun tr => bits h (ldlSem h tr f)))
  | .list [.atom "tht", h, f, here, there] => do
      let h ← decNat h
      let f ← decSForm f
      let W ← decTrace here
      let T ← decTrace there
      pure (bits h (tht h W T f))
  | .list [.atom "loopspec", imin, imax, istop, .list res] => do
      let rs ← res.mapM fun
        | .atom "SAT" => pure SolveResult.sat | .atom "UNSAT" => pure SolveResult.unsat
        | .atom "UNKNOWN" => pure SolveResult.unknown | s => dfail "result" s
      let imax ← match imax with
        | .atom "none" => pure none
        | s => do pure (some (← decInt s))
      match Stop.ofString? (← decStr istop) with
      | some st => pure (toString (specCalls (← decInt imin) imax st rs))
      | none => pure "ERR istop"
  | .list [.atom "placement", pos, l, t, ini] => do
      let pname ← decStr pos
      match Position.all.find? (fun p => (toString (repr p)).endsWith pname) with
      | none => pure "ERR position"
      | some p =>
        let isInit ← decBool ini
        let l ← decNat l
        let t ← decNat t
        let ok := if isInit then docAcceptsInit p else docAccepts p l t
        pure (if ok then "ok" else "rej")
  | s => .error s!"unknown command: {s.toStr}"

partial def loop (inp : IO.FS.Stream) (out : IO.FS.Stream) : IO Unit := do
  let line ← inp.getLine
  if line.isEmpty then return ()
  let l := line.trimAscii.toString
  if l.isEmpty then loop inp out else
  match Sexp.parse l with
  | none => out.putStrLn "ERR parse"
  | some s =>
    match handle s with
    | .ok r => out.putStrLn r
    | .error e => out.putStrLn ("ERR " ++ e)
  out.flush
  loop inp out

def main : IO Unit := do
  loop (← IO.getStdin) (← IO.getStdout)
