/-
`telmodel`: the executable model of the code.  One s-expression command per line.

  (loop imin imax istop (res...))              -> horizons solved `0 1 2` | `ERR <tag>`     (fuel = #res)
  (calls imin imax istop (parts...) (atoms...) (res...)) -> call log
  (opt name value)                             -> accepted imin imax istop | rejected | crashed <tag>
  (loopspec imin imax istop (res...))          -> number of calls by the specification
-/
import TelModel

open TelSpec TelModel TelModel.Generated

def decRes : Sexp → D SolveResult
  | .atom "SAT" => pure .sat | .atom "UNSAT" => pure .unsat | .atom "UNKNOWN" => pure .unknown
  | s => dfail "result" s

def decOptInt : Sexp → D (Option Int)
  | .atom "none" => pure none
  | s => do return some (← decInt s)

def decOpts (imin imax istop : Sexp) : D Opts := do
  return { imin := ← decInt imin, imax := ← decOptInt imax, istop := ← decStr istop }

def decPartSpec : Sexp → D PartSpec
  | .list [root, name, .list rng] => do
      return { root := ← decStr root, name := ← decStr name, range := ← rng.mapM decInt }
  | s => dfail "part" s

def decSigAtom : Sexp → D SigAtom
  | .list [a, l] => do return { lastArg := ← decInt a, literal := ← decInt l }
  | s => dfail "sigatom" s

def showCall : Call → String
  | .release k => s!"(release {k})"
  | .cleanup => "(cleanup)"
  | .ground ps => "(ground" ++ String.join (ps.map fun p => s!" ({p.name} {p.t} {p.u})") ++ ")"
  | .translate h => s!"(translate {h})"
  | .assign k => s!"(assign {k})"
  | .solve a => "(solve" ++ String.join (a.map fun x => " " ++ toString x) ++ ")"

def showOptInt : Option Int → String
  | none => "none"
  | some m => toString m

partial def showPTree : PTree → String
  | .leaf i => toString i
  | .un op a => "(un " ++ Sexp.quote op ++ " " ++ showPTree a ++ ")"
  | .bin op a b => "(bin " ++ Sexp.quote op ++ " " ++ showPTree a ++ " " ++ showPTree b ++ ")"

partial def decATerm : Sexp → D ATerm
  | .list [.atom "fn", name, .list args] => do return .fn (← decStr name) (← args.mapM decStr)
  | .list [.atom "neg", t] => do return .neg (← decATerm t)
  | .list (.atom "pool" :: ts) => do return .pool (← ts.mapM decATerm)
  | s => dfail "atom term" s

def showTParam : TParam → String
  | .num n => s!"(num {n})"
  | .time s => s!"(time {s})"

partial def showRTerm : RTerm → String
  | .fn name args params => s!"(fn {Sexp.quote name} ({" ".intercalate (args.map Sexp.quote)}) ({" ".intercalate (params.map showTParam)}))"
  | .neg t => s!"(neg {showRTerm t})"
  | .pool ts => s!"(pool {" ".intercalate (ts.map showRTerm)})"

partial def decSym : Sexp → D Sym
  | .list [.atom "n", n] => return .num (← decInt n)
  | .list [.atom "s", s] => return .str (← decStr s)
  | .list [.atom "inf"] => return .inf
  | .list [.atom "sup"] => return .sup
  | .list (.atom "f" :: name :: pos :: args) => return .fn (← decStr name) (← args.mapM decSym) (← decBool pos)
  | s => dfail "symbol" s

partial def showTTerm : TTerm → String
  | .num n => s!"(n {n})"
  | .sym s => s!"(s {Sexp.quote s})"
  | .fn name args => "(f " ++ Sexp.quote name ++ String.join (args.map fun a => " " ++ showTTerm a) ++ ")"
  | .tup args => "(t" ++ String.join (args.map fun a => " " ++ showTTerm a) ++ ")"
  | .lst args => "(l" ++ String.join (args.map fun a => " " ++ showTTerm a) ++ ")"
  | .set args => "(c" ++ String.join (args.map fun a => " " ++ showTTerm a) ++ ")"

partial def decHTerm : Sexp → D HTerm
  | .list [.atom "n", n] => return .num (← decInt n)
  | .list [.atom "v", x] => return .var (← decStr x)
  | .list [.atom "s", x] => return .sym (← decStr x)
  | .list (.atom "f" :: name :: args) => return .fn (← decStr name) (← args.mapM decHTerm)
  | .list (.atom "t" :: args) => return .tuple (← args.mapM decHTerm)
  | .list (.atom "q" :: args) => return .seq (← args.mapM decHTerm)
  | s => dfail "theory term" s

partial def showPTerm : PTerm → String
  | .num n => s!"(n {n})"
  | .var x => s!"(v {Sexp.quote x})"
  | .sym x => s!"(s {Sexp.quote x})"
  | .fn name args => "(f " ++ Sexp.quote name ++ String.join (args.map fun a => " " ++ showPTerm a) ++ ")"
  | .neg t => s!"(neg {showPTerm t})"
  | .bin plus l r => s!"(bin {if plus then "+" else "-"} {showPTerm l} {showPTerm r})"

def handle (s : Sexp) : D String :=
  match s with
  | .list [.atom "loop", imin, imax, istop, .list res] => do
      let o ← decOpts imin imax istop
      let rs ← res.mapM decRes
      let arr := rs.toArray
      match run o (fun k => arr.getD k .unknown) rs.length with
      | .ok l => pure (" ".intercalate (l.map toString))
      | .error e => pure ("ERR " ++ e.tag)
  | .list [.atom "calls", imin, imax, istop, .list parts, .list atoms, .list res] => do
      let o ← decOpts imin imax istop
      let ps ← parts.mapM decPartSpec
      let ats ← atoms.mapM (decList decSigAtom)
      let rs ← res.mapM decRes
      let arr := rs.toArray
      let atArr := ats.toArray
      match callLog o ps (fun k => atArr.getD k []) (fun k => arr.getD k .unknown) rs.length with
      | .ok l => pure (" ".intercalate (l.map showCall))
      | .error e => pure ("ERR " ++ e.tag)
  | .list [.atom "opt", name, value] => do
      match applyOption {} (← decStr name) (← decStr value) with
      | .accepted o => pure s!"accepted {o.imin} {showOptInt o.imax} {o.istop}"
      | .rejected => pure "rejected"
      | .crashed e => pure ("crashed " ++ e.tag)
  | .list [.atom "loopspec", imin, imax, istop, .list res] => do
      let rs ← res.mapM decRes
      match Stop.ofString? (← decStr istop) with
      | some st => pure (toString (specCalls (← decInt imin) (← decOptInt imax) st rs))
      | none => pure "ERR istop"
  | .list [.atom "rep", kind, t] => do
      let t ← decTTerm t
      let r := match kind with
        | .atom "tel" => createFormula t
        | .atom "del" => createDynamicFormula t
        | .atom "head" => (hCreateFormula t).map fun _ => BForm.const true
        | _ => .error (.runtime "bad kind")
      match r, kind with
      | .ok _, .atom "head" => match hCreateFormula t with
          | .ok hf => pure ("ok " ++ hf.rep)
          | .error e => pure ("ERR " ++ e.tag)
      | .ok f, _ => pure ("ok " ++ f.rep)
      | .error e, _ => pure ("ERR " ++ e.tag)
  | .list (.atom "eqns" :: h :: atoms) => do
      -- each atom: (kind step (elems...)) ; roots are the element conjunctions at their steps
      let h ← decNat h
      let roots ← atoms.mapM fun a => match a with
        | .list [kind, step, .list els] => do
            let els ← els.mapM decTElem
            let dyn := match kind with | .atom "del" => true | _ => false
            match translateElements els dyn with
            | .ok f => pure (some (f, ← decNat step))
            | .error _ => pure none
        | s => dfail "theory atom" s
      if roots.any Option.isNone then pure "ERR create" else
      pure (showEqns h (roots.filterMap id))
  | .list [.atom "ground", h, rs] => do
      let h ← decNat h
      let P ← decList decRule rs
      pure (" ".intercalate ((G P h).map GRule.toAsp))
  | .list [.atom "parts", rs] => do
      let P ← decList decRule rs
      let ps := (partsOf P).map fun p => s!"({p.root} {p.name} ({" ".intercalate (p.range.map toString)}))"
      let fs := (futureHeads P).map fun (a, n) => s!"({Sexp.quote a} {n})"
      pure ("((" ++ " ".intercalate ps ++ ") (" ++ " ".intercalate fs ++ "))")
  | .list [.atom "head", t, dmax] => do
      -- head formula of a `&tel` head atom: rep, and for d = 0..dmax the shifted formula and its clauses
      let t ← decTTerm t
      let dmax ← decNat dmax
      match hCreateFormula t with
      | .error e => pure ("ERR " ++ e.tag)
      | .ok f =>
        let per := (List.range (dmax + 1)).map fun d =>
          let sf := shiftF d f
          "(" ++ Sexp.quote sf.rep ++ " (" ++ " ".intercalate ((unfoldF sf).map fun c =>
            "(" ++ " ".intercalate (c.map fun x => Sexp.quote x.rep) ++ ")") ++ "))"
        pure ("(" ++ Sexp.quote f.rep ++ " " ++ " ".intercalate per ++ ")")
  | .list [.atom "hrules", t, d] => do
      -- the rules emitted for a head formula d steps after its own step: per clause, per element
      --   (h "<atom key>") head atom | (b "<rep of the body formula whose literal is negated>") | (x)
      match hCreateFormula (← decTTerm t) with
      | .error e => pure ("ERR " ++ e.tag)
      | .ok f =>
        let showE := fun (e : RuleElem) => match e with
          | .head p n a => s!"(h {Sexp.quote (hkey p n a)})"
          | .nbody g => s!"(b {Sexp.quote g.rep})"
          | .nothing => "(x)"
        pure ("(" ++ " ".intercalate ((unfoldF (shiftF (← decNat d) f)).map fun c =>
          "(" ++ " ".intercalate ((ruleShape c).map showE) ++ ")") ++ ")")
  | .list [.atom "parse", tbl, .list els] => do
      -- (parse body|head|headtheory|del ((ops...) ...))  operands are numbered in order
      let (t, d) ← match tbl with
        | .atom "body" => pure (bodyTable, docBody)
        | .atom "head" => pure (headTablePy, docHead)
        | .atom "headtheory" => pure (headTableTheory, docHead)
        | .atom "del" => pure (delTable, docDel)
        | s => dfail "table" s
      let elems ← els.mapM fun e => match e with
        | .list ops => do pure (← ops.mapM decStr)
        | s => dfail "ops" s
      let elems := (elems.zip (List.range elems.length)).map fun (ops, i) => ({ ops := ops, term := i } : UElem)
      let showT := fun (r : Option PTree) => match r with | some t => showPTree t | none => "none"
      let m := match stackParse t elems with
        | .ok tr => showPTree tr
        | .error e => "ERR " ++ e.tag
      pure (m ++ " @@ " ++ showT (docRead d (toToks elems)))
  | .list [.atom "accept", pos, name] => do
      let pname ← decStr pos
      match Position.all.find? (fun p => (toString (repr p)).endsWith pname) with
      | none => pure "ERR position"
      | some p =>
        match acceptsAtom p (← decStr name) with
        | .ok r => pure s!"ok {Sexp.quote r.name} {r.shift} {if r.initially then 1 else 0} {if r.future then 1 else 0}"
        | .error e => pure ("rej " ++ e.tag)
  | .list [.atom "classify", r, l, b, v, sy, n] => do
      -- (classify isRule headIsLiteral atomIsBoolConst atomValue atomIsSymbolic signNone) -> is_constraint is_normal
      let sh : StmtShape := { isRule := ← decBool r, headIsLiteral := ← decBool l, atomIsBoolConst := ← decBool b,
                              atomValue := ← decBool v, atomIsSymbolic := ← decBool sy, signNone := ← decBool n }
      pure s!"{sh.isConstraint} {sh.isNormal}"
  | .list [.atom "elemguard", n] => do
      -- (elemguard nterms) -> rejected in a body &tel atom, rejected in a &del atom
      let k ← decInt n
      pure s!"{telElemRejected k} {delElemRejected k}"
  | .list [.atom "theoryguard", neg, cons] => do
      pure s!"{telBodyAccepted (← decBool neg) (← decBool cons)} {delBodyAccepted (← decBool neg) (← decBool cons)}"
  | .list [.atom "print", h, .list syms] => do
      -- (print h ((isFunction name positive (args...) lastNum|none rank) ...)) -> the text, newlines as \n
      let h ← decNat h
      let ss ← syms.mapM fun s => match s with
        | .list [f, name, pos, .list args, last, rank] => do
            let lastNum ← match last with
              | .atom "none" => pure none
              | x => do pure (some (← decInt x))
            pure ({ isFunction := ← decBool f, name := ← decStr name, positive := ← decBool pos,
                    args := ← args.mapM decStr, lastNum := lastNum, rank := ← decNat rank } : ShownSym)
        | x => dfail "shown symbol" x
      pure ((printModel h ss).replace "\n" "\\n")
  | .list (.atom "ivset" :: ivs) => do
      -- (ivset (l r) ...) : add the intervals in order; print the resulting list and membership of -2..12
      let ys ← ivs.mapM fun x => match x with
        | .list [l, r] => do pure (⟨← decInt l, ← decInt r⟩ : Ival)
        | s => dfail "interval" s
      let s := ys.foldl IntervalSet.add []
      pure (" ".intercalate (s.map fun i => s!"({i.left} {i.right})"))
  | .list [.atom "addtime", rf, ff, fp, t] => do
      -- (addtime rf ff fp <term>)   term ::= (fn name (args...)) | (neg term) | (pool term...)
      match addTime (← decBool rf) (← decBool ff) (← decBool fp) true {} (← decATerm t) with
      | .error e => pure ("ERR " ++ e.tag)
      | .ok (t', st) =>
        let fs := st.futures.map fun (n, a, p, sh) => s!"({Sexp.quote n} {a} {if p then "true" else "false"} {sh})"
        pure s!"ok {showRTerm t'} ({" ".intercalate fs}) {st.maxShift}"
  | .list [.atom "trrec", fixed, .list kinds, .list ranks, .list roots] => do
      -- (trrec fixed (kind...) (rank...) (root...)) : BodyFormula.translate on a graph of pairs; kind ::= leaf | (alias c) | (op r a b) | (op3 a b c) | (early c)
      let n := kinds.length
      if n = 0 then pure "ok () 0" else
      let fin : Sexp → D (Fin n) := fun x => do
        let c ← decNat x
        if h : c < n then pure ⟨c, h⟩ else dfail "pair index" x
      let ks ← kinds.mapM fun k => match k with
        | .atom "leaf" => pure (TR.Kind.leaf : TR.Kind n)
        | .list [.atom "alias", c] => do pure (TR.Kind.alias (← fin c))
        | .list [.atom "op", r, a, b] => do pure (TR.Kind.op (← decBool r) (← fin a) (← fin b))
        | .list [.atom "op3", a, b, c] => do pure (TR.Kind.op3 (← fin a) (← fin b) (← fin c))
        | .list [.atom "early", c] => do pure (TR.Kind.early (← fin c))
        | x => dfail "kind" x
      let rs ← ranks.mapM decNat
      let roots' ← roots.mapM fin
      let G : TR.Graph n := { kind := fun i => ks.getD i.val .leaf, rank := fun i => rs.getD i.val 0 }
      if h : G.okB = true then
        let s := TR.trAll G (TR.Graph.okB_ok G h) (← decBool fixed) roots' { set := fun _ => false }
        pure s!"ok ({" ".intercalate (s.log.map toString)}) {if s.err then 1 else 0}"
      else pure "ERR not-ok"
  | .list (.atom "addtimestmt" :: occs) => do
      -- (addtimestmt (rf ff fp <term>) ...) : the atoms of a statement rewritten in order, one bookkeeping state
      let os ← occs.mapM fun o => match o with
        | .list [rf, ff, fp, t] => do pure ({ rf := ← decBool rf, ff := ← decBool ff, fp := ← decBool fp, pos := true, term := ← decATerm t } : AtomOcc)
        | x => dfail "atom occurrence" x
      match addTimeStmt os {} with
      | .error e => pure ("ERR " ++ e.tag)
      | .ok (ts, st) =>
        let fs := st.futures.map fun (n, a, p, sh) => s!"({Sexp.quote n} {a} {if p then "true" else "false"} {sh})"
        pure s!"ok ({" ".intercalate (ts.map showRTerm)}) ({" ".intercalate fs}) {st.maxShift}"
  | .list [.atom "ranges", t] => do
      -- time ranges of the atoms of a head formula: (key lo ray) ...
      match hCreateFormula (← decTTerm t) with
      | .error e => pure ("ERR " ++ e.tag)
      | .ok f => pure ("(" ++ " ".intercalate ((rangesH 0 false f).map fun (k, r) =>
          s!"({Sexp.quote k} {r.lo} {if r.ray then 1 else 0})") ++ ")")
  | .list (.atom "clauses" :: kind :: args) => do
      -- (clauses bool op lit lhs rhs) | (clauses tel dual lit lhs|none rhs pre) | (clauses eq a b)
      let cs ← match kind, args with
        | .atom "bool", [op, lit, lhs, rhs] => pure (boolClauses (← decStr op) (← decInt lit) (← decInt lhs) (← decInt rhs))
        | .atom "tel", [dual, lit, lhs, rhs, pre] => do
            let l ← match lhs with
              | .atom "none" => pure none
              | x => do pure (some (← decInt x))
            pure (telClauses (← decBool dual) (← decInt lit) l (← decInt rhs) (← decInt pre))
        | .atom "eq", [a, b] => pure (makeEqual (← decInt a) (← decInt b))
        | _, _ => dfail "clauses" s
      pure ("(" ++ " ".intercalate (cs.map fun c => "(" ++ " ".intercalate (c.map toString) ++ ")") ++ ")")
  | .list [.atom "convterm", x] => do
      -- (convterm <parsed theory term>) : theory_term_to_term
      match convTerm headTablePy (← decHTerm x) with
      | .ok p => pure (showPTerm p)
      | .error e => pure ("ERR " ++ e.tag)
  | .list [.atom "nextstep", n, weak, step, horizon, st] => do
      -- (nextstep n weak step horizon fresh|pending|done) : Next.do_translate -> new state and action
      let st0 ← match st with
        | .atom "fresh" => pure NState.fresh
        | .atom "pending" => pure NState.pending
        | .atom "done" => pure NState.done
        | x => dfail "state" x
      let (st1, a) := nextTranslate (← decNat n) (← decBool weak) (← decNat step) (← decNat horizon) st0
      let showS := fun (x : NState) => match x with | .fresh => "fresh" | .pending => "pending" | .done => "done"
      let showA := match a with
        | .direct t => s!"(direct {t})"
        | .placeholder v s => s!"(placeholder {if v then 1 else 0} {s})"
        | .resolve t => s!"(resolve {t})"
        | .requeue s => s!"(requeue {s})"
        | .nothing => "(nothing)"
      pure s!"{showS st1} {showA}"
  | .list (.atom "stepdata" :: ops) => do
      -- (stepdata (add a) (own fresh) (assign l) ...) : StepData after these calls of add_atom / translate, and the backend statements
      let ops' ← ops.mapM fun o => match o with
        | .list [.atom "add", a] => do pure (SDOp.addAtom (← decInt a))
        | .list [.atom "own", a] => do pure (SDOp.translate (.own (← decInt a)))
        | .list [.atom "assign", a] => do pure (SDOp.translate (.assign (← decInt a)))
        | x => dfail "stepdata op" x
      let (d, out) := StepData.run {} ops'
      let ints := fun (l : List Int) => "(" ++ " ".intercalate (l.map toString) ++ ")"
      let lit := match d.literal with | some l => toString l | none => "none"
      let sorted := d.literals.toArray.qsort (· < ·) |>.toList
      let outs := out.map fun o => match o with
        | .choice a => s!"(choice {a})"
        | .clause c => ints c
      pure s!"{lit} {ints sorted} {ints d.todo} ({" ".intercalate outs})"
  | .list (.atom "todo" :: ks) => do
      -- (todo (step rep) ...) : the queue after these add_todo calls
      let keys ← ks.mapM fun k => match k with
        | .list [st, rep] => do pure ((← decNat st, ← decStr rep) : TodoKey)
        | x => dfail "todo key" x
      pure ("(" ++ " ".intercalate ((todoAfter keys).map fun (st, rep) => s!"({st} {Sexp.quote rep})") ++ ")")
  | .list [.atom "getvars", x] => do
      -- (getvars <theory term>) : get_variables, in order
      pure ("(" ++ " ".intercalate ((getVariables (← decHTerm x)).map Sexp.quote) ++ ")")
  | .list [.atom "symterm", x] => do
      -- (symterm <symbol>) : the theory term of the symbol, and what create_symbol makes of it
      let sy ← decSym x
      let t := symTerm sy
      let back := match createSymbol t with
        | .ok s' => if s' == sy then "same" else "different " ++ s'.toStr
        | .error e => "ERR " ++ e.tag
      pure s!"{showTTerm t} {back}"
  | s => .error s!"unknown command: {s.toStr}"

partial def loop (inp : IO.FS.Stream) (out : IO.FS.Stream) : IO Unit := do
  let line ← inp.getLine
  if line.isEmpty then return ()
  let l := line.trimAscii.toString
  if l.isEmpty then loop inp out else
  match Sexp.parse l with
  | none => out.putStrLn "ERR parse"
  | some s =>
    match handle s with
    | .ok r => out.putStrLn r
    | .error e => out.putStrLn ("ERR " ++ e)
  loop inp out

def main : IO Unit := do
  loop (← IO.getStdin) (← IO.getStdout)
