/-
Specification of temporal formulas (README operator table) on finite traces.

`SForm` is the *surface* syntax of `&tel { ... }` formulas, one constructor per
line of the README table.  `tht` is temporal here-and-there satisfaction on a
trace of length `h+1`; `docSem` (LTL_f) is its total case.

Conventions: positions are `0..h`; `k` is assumed `≤ h` by all users.
-/

namespace TelSpec

inductive Kw where
  | ktrue | kfalse | kinitial | kfinal
  deriving Repr, DecidableEq, Inhabited

inductive BinOp where
  | and | or | limp | rimp | equiv      -- &  |  <-  ->  <>
  deriving Repr, DecidableEq, Inhabited

inductive SForm where
  | atom (a : String)
  | kw (k : Kw)
  | neg (f : SForm)                               -- ~ f
  | bin (op : BinOp) (l r : SForm)
  | prev (n : Nat) (weak : Bool) (f : SForm)      -- n < f , n <: f   (unary: n = 1)
  | next (n : Nat) (weak : Bool) (f : SForm)      -- n > f , n >: f
  | since (l r : SForm)                           -- l <? r
  | trigger (l r : SForm)                         -- l <* r
  | evP (r : SForm)                               -- <? r
  | alP (r : SForm)                               -- <* r
  | unt (l r : SForm)                             -- l >? r
  | rel (l r : SForm)                             -- l >* r
  | evF (r : SForm)                               -- >? r
  | alF (r : SForm)                               -- >* r
  | initially (f : SForm)                         -- << f
  | finally_ (f : SForm)                          -- >> f
  | seqPrev (weak : Bool) (l r : SForm)           -- l <; r , l <:; r   ==  (< l) & r
  | seqNext (weak : Bool) (l r : SForm)           -- l ;> r , l ;>: r   ==  l & (> r)
  deriving Repr, Inhabited, DecidableEq

/-- An interpretation of a trace: truth of atom `a` at position `k`. -/
abbrev Trace := Nat → String → Bool

def allUpTo (n : Nat) (p : Nat → Bool) : Bool := (List.range (n+1)).all p
def anyUpTo (n : Nat) (p : Nat → Bool) : Bool := (List.range (n+1)).any p
/-- all / any over `lo ≤ j ≤ hi` -/
def allBetween (lo hi : Nat) (p : Nat → Bool) : Bool := (List.range (hi+1)).all fun j => j < lo || p j
def anyBetween (lo hi : Nat) (p : Nat → Bool) : Bool := (List.range (hi+1)).any fun j => lo ≤ j && p j

/-- Temporal here-and-there satisfaction `(W,T), k ⊨ f` on a trace of length `h+1`.
    `W` is the "here" trace (`W ≤ T`); for a total trace call it with `W = T`. -/
def tht (h : Nat) (W T : Trace) : SForm → Nat → Bool
  | .atom a, k => W k a
  | .kw .ktrue, _ => true
  | .kw .kfalse, _ => false
  | .kw .kinitial, k => k == 0
  | .kw .kfinal, k => k == h
  | .neg f, k => !(tht h T T f k)
  | .bin .and l r, k => tht h W T l k && tht h W T r k
  | .bin .or l r, k => tht h W T l k || tht h W T r k
  | .bin .rimp l r, k => (!(tht h W T l k) || tht h W T r k) && (!(tht h T T l k) || tht h T T r k)
  | .bin .limp l r, k => (!(tht h W T r k) || tht h W T l k) && (!(tht h T T r k) || tht h T T l k)
  | .bin .equiv l r, k =>
      ((!(tht h W T l k) || tht h W T r k) && (!(tht h T T l k) || tht h T T r k)) &&
      ((!(tht h W T r k) || tht h W T l k) && (!(tht h T T r k) || tht h T T l k))
  | .prev n w f, k => if n ≤ k then tht h W T f (k - n) else w
  | .next n w f, k => if k + n ≤ h then tht h W T f (k + n) else w
  | .since l r, k => anyUpTo k fun j => tht h W T r j && allBetween (j+1) k fun i => tht h W T l i
  | .trigger l r, k => allUpTo k fun j => tht h W T r j || anyBetween (j+1) k fun i => tht h W T l i
  | .evP r, k => anyUpTo k fun j => tht h W T r j
  | .alP r, k => allUpTo k fun j => tht h W T r j
  | .unt l r, k => anyBetween k h fun j => tht h W T r j && allBetween k (j-1) fun i => i ≥ j || tht h W T l i
  | .rel l r, k => allBetween k h fun j => tht h W T r j || anyBetween k (j-1) fun i => i < j && tht h W T l i
  | .evF r, k => anyBetween k h fun j => tht h W T r j
  | .alF r, k => allBetween k h fun j => tht h W T r j
  | .initially f, _ => tht h W T f 0
  | .finally_ f, _ => tht h W T f h
  | .seqPrev w l r, k => (if 1 ≤ k then tht h W T l (k - 1) else w) && tht h W T r k
  | .seqNext w l r, k => tht h W T l k && (if k + 1 ≤ h then tht h W T r (k + 1) else w)

/-- LTL on finite traces: the README reading of `&tel` body formulas. -/
def docSem (h : Nat) (tr : Trace) (f : SForm) (k : Nat) : Bool := tht h tr tr f k

/-- The formulas admitted in rule heads (README: marked [head]). -/
def SForm.headOk : SForm → Bool
  | .atom _ => true
  | .kw _ => true
  | .neg f => f.headOk
  | .bin .and l r => l.headOk && r.headOk
  | .bin .or l r => l.headOk && r.headOk
  | .bin _ _ _ => false
  | .next _ _ f => f.headOk
  | .unt l r => l.headOk && r.headOk
  | .rel l r => l.headOk && r.headOk
  | .evF r => r.headOk
  | .alF r => r.headOk
  | .finally_ f => f.headOk
  | .seqNext _ l r => l.headOk && r.headOk
  | _ => false

def SForm.size : SForm → Nat
  | .atom _ => 1
  | .kw _ => 1
  | .neg f => f.size + 1
  | .bin _ l r => l.size + r.size + 1
  | .prev _ _ f => f.size + 1
  | .next _ _ f => f.size + 1
  | .since l r => l.size + r.size + 1
  | .trigger l r => l.size + r.size + 1
  | .evP r => r.size + 1
  | .alP r => r.size + 1
  | .unt l r => l.size + r.size + 1
  | .rel l r => l.size + r.size + 1
  | .evF r => r.size + 1
  | .alF r => r.size + 1
  | .initially f => f.size + 1
  | .finally_ f => f.size + 1
  | .seqPrev _ l r => l.size + r.size + 1
  | .seqNext _ l r => l.size + r.size + 1

end TelSpec
