/-
Specification of how an operator string is read (C07): the documented operator tables of `&tel` body
formulas, `&tel` head formulas and `&del` formulas, and precedence-climbing as the reading rule:

  an operator to the left with priority q yields to an incoming binary operator with priority p
  iff  q < p,  or  q = p and the incoming operator is right-associative.

`readExpr` is the textbook recursive formulation (Pratt); it shares no code with the stack machine of
`telingo/transformers/head.py` or with gringo's parser.
-/
namespace TelSpec

/-- documented operator: name, unary?, priority, left-associative? (binary only) -/
structure DocOp where
  op : String
  unary : Bool
  prio : Nat
  left : Option Bool
  deriving Repr, DecidableEq, Inhabited

/-- `&tel` in rule bodies -/
def docBody : List DocOp := [
  ⟨"&", true, 7, none⟩, ⟨"-", true, 7, none⟩,
  ⟨"+", false, 6, some true⟩, ⟨"-", false, 6, some true⟩,
  ⟨"~", true, 5, none⟩,
  ⟨"<", true, 5, none⟩, ⟨"<", false, 5, some false⟩, ⟨"<:", true, 5, none⟩, ⟨"<:", false, 5, some false⟩,
  ⟨"<?", true, 5, none⟩, ⟨"<*", true, 5, none⟩, ⟨"<<", true, 5, none⟩,
  ⟨">", true, 5, none⟩, ⟨">", false, 5, some false⟩, ⟨">:", true, 5, none⟩, ⟨">:", false, 5, some false⟩,
  ⟨">?", true, 5, none⟩, ⟨">*", true, 5, none⟩, ⟨">>", true, 5, none⟩,
  ⟨">*", false, 4, some true⟩, ⟨">?", false, 4, some true⟩, ⟨"<*", false, 4, some true⟩, ⟨"<?", false, 4, some true⟩,
  ⟨"&", false, 3, some true⟩, ⟨"|", false, 2, some true⟩,
  ⟨"<-", false, 1, some true⟩, ⟨"->", false, 1, some true⟩, ⟨"<>", false, 1, some true⟩,
  ⟨";>", false, 0, some false⟩, ⟨";>:", false, 0, some false⟩, ⟨"<;", false, 0, some true⟩, ⟨"<:;", false, 0, some true⟩]

/-- `&tel` in rule heads -/
def docHead : List DocOp := [
  ⟨"&", true, 7, none⟩, ⟨"-", true, 7, none⟩,
  ⟨"+", false, 6, some true⟩, ⟨"-", false, 6, some true⟩,
  ⟨"~", true, 5, none⟩,
  ⟨">", true, 5, none⟩, ⟨">", false, 5, some false⟩, ⟨">:", true, 5, none⟩, ⟨">:", false, 5, some false⟩,
  ⟨">?", true, 5, none⟩, ⟨">*", true, 5, none⟩, ⟨">>", true, 5, none⟩,
  ⟨">*", false, 4, some true⟩, ⟨">?", false, 4, some true⟩,
  ⟨"&", false, 3, some true⟩, ⟨"|", false, 2, some true⟩,
  ⟨";>", false, 0, some false⟩, ⟨";>:", false, 0, some false⟩]

/-- `&del` -/
def docDel : List DocOp := [
  ⟨"&", true, 7, none⟩, ⟨"?", true, 4, none⟩, ⟨"*", true, 3, none⟩,
  ⟨"+", false, 2, some true⟩, ⟨";;", false, 1, some true⟩,
  ⟨".>?", false, 0, some false⟩, ⟨".>*", false, 0, some false⟩]

def DocOp.find (tbl : List DocOp) (op : String) (unary : Bool) : Option DocOp :=
  tbl.find? fun e => e.op == op && e.unary == unary

/-- the tree of a read formula: operators applied to one or two arguments over numbered operands -/
inductive PTree where
  | leaf (i : Nat)
  | un (op : String) (a : PTree)
  | bin (op : String) (a b : PTree)
  deriving Repr, DecidableEq, Inhabited

inductive PTok where
  | op (s : String)
  | leaf (i : Nat)
  deriving Repr, DecidableEq, Inhabited

/-- `readExpr tbl fuel q toks`: read one expression whose left neighbour binds with priority `q` (`none` at
    the outermost level).  Returns the tree and the remaining tokens. -/
def readExpr (tbl : List DocOp) : Nat → Option Nat → List PTok → Option (PTree × List PTok)
  | 0, _, _ => none
  | fuel+1, q, toks =>
    -- primary: an operand, or a prefix operator applied to an expression that binds at least as tightly
    let prim : Option (PTree × List PTok) :=
      match toks with
      | .leaf i :: rest => some (.leaf i, rest)
      | .op s :: rest =>
        match DocOp.find tbl s true with
        | some e =>
          match readExpr tbl fuel (some e.prio) rest with
          | some (a, rest') => some (.un s a, rest')
          | none => none
        | none => none
      | [] => none
    match prim with
    | none => none
    | some (lhs, rest) => climb tbl fuel q lhs rest
where
  /-- absorb binary operators to the right as long as the left neighbour yields to them -/
  climb (tbl : List DocOp) : Nat → Option Nat → PTree → List PTok → Option (PTree × List PTok)
    | 0, _, lhs, rest => some (lhs, rest)
    | fuel+1, q, lhs, rest =>
      match rest with
      | .op s :: rest' =>
        match DocOp.find tbl s false with
        | some e =>
          let yields := match q with
            | none => true
            | some qp => decide (qp < e.prio) || (qp == e.prio && e.left == some false)
          if yields then
            match readExpr tbl fuel (some e.prio) rest' with
            | some (rhs, rest'') => climb tbl fuel q (.bin s lhs rhs) rest''
            | none => none
          else some (lhs, rest)
        | none => none
      | _ => some (lhs, rest)

/-- the documented reading of a whole token string -/
def docRead (tbl : List DocOp) (toks : List PTok) : Option PTree :=
  match readExpr tbl (2 * toks.length + 2) none toks with
  | some (t, []) => some t
  | _ => none

end TelSpec
