/-
Specification of `&del` formulas: linear dynamic logic on finite traces (LDL_f).

Path expressions: `&true` (one step), `? t` (test), `+` (choice), `;;`
(sequence), `*` (iteration), an atom `a` read as test-then-step.  The tests
telingo's grammar admits are atoms and the constants `&true` / `&false`.
-/
import TelSpec.Formula

namespace TelSpec

inductive DTest where
  | atom (a : String)
  | const (b : Bool)
  deriving Repr, DecidableEq, Inhabited

inductive DPath where
  | skip                         -- &true : consume one state
  | test (t : DTest)             -- ? t
  | step (a : String)            -- a      == (? a) ;; &true
  | choice (l r : DPath)         -- l + r
  | seq (l r : DPath)            -- l ;; r
  | star (p : DPath)             -- * p
  deriving Repr, DecidableEq, Inhabited

inductive DForm where
  | atom (a : String)
  | const (b : Bool)             -- &true / &false
  | final                        -- &final
  | dia (p : DPath) (f : DForm)  -- p .>? f
  | box (p : DPath) (f : DForm)  -- p .>* f
  deriving Repr, DecidableEq, Inhabited

def DTest.holds (tr : Trace) (k : Nat) : DTest → Bool
  | .atom a => tr k a
  | .const b => b

/-- insert into a duplicate-free list -/
def insNat (x : Nat) (xs : List Nat) : List Nat := if xs.contains x then xs else x :: xs
def unionNat (xs ys : List Nat) : List Nat := xs.foldr insNat ys

/-- iterate `f` `n` times, accumulating the union -/
def closure (f : List Nat → List Nat) : Nat → List Nat → List Nat
  | 0, s => s
  | n+1, s => closure f n (unionNat (f s) s)

/-- `reach h tr p S` : positions reachable from some position of `S` by one run of `p`
    that stays inside `0..h`. -/
def reach (h : Nat) (tr : Trace) : DPath → List Nat → List Nat
  | .skip, s => (s.filter (fun k => k + 1 ≤ h)).map (· + 1)
  | .test t, s => s.filter (fun k => t.holds tr k)
  | .step a, s => ((s.filter (fun k => tr k a)).filter (fun k => k + 1 ≤ h)).map (· + 1)
  | .choice l r, s => unionNat (reach h tr l s) (reach h tr r s)
  | .seq l r, s => reach h tr r (reach h tr l s)
  | .star p, s => closure (reach h tr p) (h + 1) s

/-- LDL_f truth value at position `k`. -/
def ldlSem (h : Nat) (tr : Trace) : DForm → Nat → Bool
  | .atom a, k => tr k a
  | .const b, _ => b
  | .final, k => k == h
  | .dia p f, k => (reach h tr p [k]).any fun j => ldlSem h tr f j
  | .box p f, k => (reach h tr p [k]).all fun j => ldlSem h tr f j

/-- The documented normal form: iteration only over paths every run of which
    consumes at least one state. -/
def DPath.consumes : DPath → Bool
  | .skip => true
  | .test _ => false
  | .step _ => true
  | .choice l r => l.consumes && r.consumes
  | .seq l r => l.consumes || r.consumes
  | .star _ => false

def DPath.normal : DPath → Bool
  | .skip => true
  | .test _ => true
  | .step _ => true
  | .choice l r => l.normal && r.normal
  | .seq l r => l.normal && r.normal
  | .star p => p.normal && p.consumes

def DForm.normal : DForm → Bool
  | .atom _ => true
  | .const _ => true
  | .final => true
  | .dia p f => p.normal && f.normal
  | .box p f => p.normal && f.normal

end TelSpec
