/-
Specification of `&del` formulas: linear dynamic logic on finite traces (LDL_f).

Path expressions: `&true` (one step), `? t` (test), `+` (choice), `;;`
(sequence), `*` (iteration), an atom `a` read as test-then-step.  The tests
telingo's grammar admits are atoms and the constants `&true` / `&false`.
-/
import TelSpec.Formula

namespace TelSpec

inductive DTest where
  | atom (a : String)
  | const (b : Bool)
  deriving Repr, DecidableEq, Inhabited

inductive DPath where
  | skip                         -- &true : consume one state
  | test (t : DTest)             -- ? t
  | step (a : String)            -- a      == (? a) ;; &true
  | choice (l r : DPath)         -- l + r
  | seq (l r : DPath)            -- l ;; r
  | star (p : DPath)             -- * p
  deriving Repr, DecidableEq, Inhabited

inductive DForm where
  | atom (a : String)
  | const (b : Bool)             -- &true / &false
  | final                        -- &final
  | dia (p : DPath) (f : DForm)  -- p .>? f
  | box (p : DPath) (f : DForm)  -- p .>* f
  deriving Repr, DecidableEq, Inhabited

def DTest.holds (tr : Trace) (k : Nat) : DTest → Bool
  | .atom a => tr k a
  | .const b => b

/-- reflexive-transitive closure of a step relation `R` on positions `0..h`, in at most `n` steps -/
def starRuns (h : Nat) (R : Nat → Nat → Bool) : Nat → Nat → Nat → Bool
  | 0, k, j => j == k
  | n+1, k, j => j == k || anyUpTo h fun m => R k m && starRuns h R n m j

/-- `runs h tr p k j` : some run of the path expression `p` leads from position `k` to position `j`
    without leaving `0..h`  (the relation ‖p‖ of LDL_f). -/
def runs (h : Nat) (tr : Trace) : DPath → Nat → Nat → Bool
  | .skip, k, j => j == k + 1 && decide (j ≤ h)
  | .test t, k, j => j == k && t.holds tr k
  | .step a, k, j => tr k a && (j == k + 1 && decide (j ≤ h))
  | .choice l r, k, j => runs h tr l k j || runs h tr r k j
  | .seq l r, k, j => anyUpTo h fun m => runs h tr l k m && runs h tr r m j
  | .star p, k, j => starRuns h (runs h tr p) (h + 1) k j

/-- LDL_f truth value at position `k`: diamond = some run ends in a state satisfying `f`, box = every run. -/
def ldlSem (h : Nat) (tr : Trace) : DForm → Nat → Bool
  | .atom a, k => tr k a
  | .const b, _ => b
  | .final, k => k == h
  | .dia p f, k => anyUpTo h fun j => runs h tr p k j && ldlSem h tr f j
  | .box p f, k => allUpTo h fun j => !(runs h tr p k j) || ldlSem h tr f j

/-- The documented normal form: iteration only over paths every run of which
    consumes at least one state. -/
def DPath.consumes : DPath → Bool
  | .skip => true
  | .test _ => false
  | .step _ => true
  | .choice l r => l.consumes && r.consumes
  | .seq l r => l.consumes || r.consumes
  | .star _ => false

def DPath.normal : DPath → Bool
  | .skip => true
  | .test _ => true
  | .step _ => true
  | .choice l r => l.normal && r.normal
  | .seq l r => l.normal && r.normal
  | .star p => p.normal && p.consumes

def DForm.normal : DForm → Bool
  | .atom _ => true
  | .const _ => true
  | .final => true
  | .dia p f => p.normal && f.normal
  | .box p f => p.normal && f.normal

end TelSpec
