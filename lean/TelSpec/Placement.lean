/-
Specification of where temporal atoms may be placed (C11): the syntactic positions an atom can occupy and
the documented categories — head of a normal rule, inside a constraint, positive head position.
-/
namespace TelSpec

inductive Position where
  | normalHead | disjElem | disjCond | choiceElem | choiceCond | headAggElem | headAggCond
  | bodyLit | bodyCondLit | bodyCondCond | bodyAggCond              -- body of a non-constraint rule
  | consLit | consCondLit | consCondCond | consAggCond              -- body of an integrity constraint
  | negHead | negHeadBody | negDisjElem
  | external | externalBody | showBody | weakBody | heuristicAtom | heuristicBody | edgeBody
  | projectAtom | projectBody | minimizeBody
  | telCondCons | telCondNeg
  deriving Repr, DecidableEq, Inhabited

def Position.all : List Position :=
  [.normalHead, .disjElem, .disjCond, .choiceElem, .choiceCond, .headAggElem, .headAggCond,
   .bodyLit, .bodyCondLit, .bodyCondCond, .bodyAggCond, .consLit, .consCondLit, .consCondCond, .consAggCond,
   .negHead, .negHeadBody, .negDisjElem, .external, .externalBody, .showBody, .weakBody, .heuristicAtom,
   .heuristicBody, .edgeBody, .projectAtom, .projectBody, .minimizeBody, .telCondCons, .telCondNeg]

/-! ### documented categories (from the property / README) -/

/-- head of a normal rule -/
def Position.isNormalHead : Position → Bool
  | .normalHead => true
  | _ => false

/-- anywhere inside an integrity constraint or a rule with a negative head literal -/
def Position.inConstraint : Position → Bool
  | .consLit | .consCondLit | .consCondCond | .consAggCond | .negHead | .negHeadBody | .telCondCons => true
  | _ => false

/-- a position whose atom is introduced: positive head literal, disjunction / choice / head-aggregate element, the atom of an
    `#external` statement -/
def Position.isPositiveHead : Position → Bool
  | .normalHead | .disjElem | .choiceElem | .headAggElem | .external => true
  | _ => false


/-- the documented verdict for an atom with `l` leading and `t` trailing primes at a position:
    rejected iff future outside a normal head or constraint, or past in a positive head position -/
def docAccepts (pos : Position) (l t : Nat) : Bool :=
  !((decide (l < t) && !(pos.isNormalHead || pos.inConstraint)) || (decide (t < l) && pos.isPositiveHead))

/-- `_p` (initially) counts as a past reference -/
def docAcceptsInit (pos : Position) : Bool := !pos.isPositiveHead

end TelSpec
