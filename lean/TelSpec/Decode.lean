/-
Decoding of the line protocol into specification objects (driver glue; `partial`
is acceptable here: nothing is proved about decoding).
-/
import TelSpec.Sexp
import TelSpec.Program

namespace TelSpec
open Sexp

abbrev D := Except String

def dfail {α} (what : String) (s : Sexp) : D α := .error s!"cannot decode {what}: {s.toStr}"

def decNat (s : Sexp) : D Nat := match s.asNat? with | some n => pure n | none => dfail "nat" s
def decInt (s : Sexp) : D Int := match s.asInt? with | some n => pure n | none => dfail "int" s
def decStr (s : Sexp) : D String := match s with | .atom a => pure a | _ => dfail "string" s
def decBool (s : Sexp) : D Bool := match s with
  | .atom "1" => pure true | .atom "0" => pure false | _ => dfail "bool" s

def decKw : Sexp → D Kw
  | .atom "true" => pure .ktrue | .atom "false" => pure .kfalse
  | .atom "initial" => pure .kinitial | .atom "final" => pure .kfinal
  | s => dfail "kw" s

def decBinOp : Sexp → D BinOp
  | .atom "and" => pure .and | .atom "or" => pure .or | .atom "limp" => pure .limp
  | .atom "rimp" => pure .rimp | .atom "equiv" => pure .equiv
  | s => dfail "binop" s

partial def decSForm : Sexp → D SForm
  | .list [.atom "a", a] => return .atom (← decStr a)
  | .list [.atom "k", k] => return .kw (← decKw k)
  | .list [.atom "~", f] => return .neg (← decSForm f)
  | .list [.atom "b", op, l, r] => return .bin (← decBinOp op) (← decSForm l) (← decSForm r)
  | .list [.atom "prev", n, w, f] => return .prev (← decNat n) (← decBool w) (← decSForm f)
  | .list [.atom "next", n, w, f] => return .next (← decNat n) (← decBool w) (← decSForm f)
  | .list [.atom "since", l, r] => return .since (← decSForm l) (← decSForm r)
  | .list [.atom "trigger", l, r] => return .trigger (← decSForm l) (← decSForm r)
  | .list [.atom "evP", r] => return .evP (← decSForm r)
  | .list [.atom "alP", r] => return .alP (← decSForm r)
  | .list [.atom "unt", l, r] => return .unt (← decSForm l) (← decSForm r)
  | .list [.atom "rel", l, r] => return .rel (← decSForm l) (← decSForm r)
  | .list [.atom "evF", r] => return .evF (← decSForm r)
  | .list [.atom "alF", r] => return .alF (← decSForm r)
  | .list [.atom "init", f] => return .initially (← decSForm f)
  | .list [.atom "fin", f] => return .finally_ (← decSForm f)
  | .list [.atom "seqp", w, l, r] => return .seqPrev (← decBool w) (← decSForm l) (← decSForm r)
  | .list [.atom "seqn", w, l, r] => return .seqNext (← decBool w) (← decSForm l) (← decSForm r)
  | s => dfail "sform" s

def decDTest : Sexp → D DTest
  | .list [.atom "a", a] => return .atom (← decStr a)
  | .list [.atom "c", b] => return .const (← decBool b)
  | s => dfail "dtest" s

partial def decDPath : Sexp → D DPath
  | .list [.atom "skip"] => pure .skip
  | .list [.atom "test", t] => return .test (← decDTest t)
  | .list [.atom "step", a] => return .step (← decStr a)
  | .list [.atom "choice", l, r] => return .choice (← decDPath l) (← decDPath r)
  | .list [.atom "seq", l, r] => return .seq (← decDPath l) (← decDPath r)
  | .list [.atom "star", p] => return .star (← decDPath p)
  | s => dfail "dpath" s

partial def decDForm : Sexp → D DForm
  | .list [.atom "a", a] => return .atom (← decStr a)
  | .list [.atom "c", b] => return .const (← decBool b)
  | .list [.atom "final"] => pure .final
  | .list [.atom "dia", p, f] => return .dia (← decDPath p) (← decDForm f)
  | .list [.atom "box", p, f] => return .box (← decDPath p) (← decDForm f)
  | s => dfail "dform" s

def decSign : Sexp → D Sign
  | .atom "pos" => pure .pos | .atom "not" => pure .not | .atom "notnot" => pure .notnot
  | s => dfail "sign" s

def decPart : Sexp → D Part
  | .atom "initial" => pure .initial | .atom "always" => pure .always
  | .atom "dynamic" => pure .dynamic | .atom "final" => pure .final
  | s => dfail "part" s

def decBLit : Sexp → D BLit
  | .list [.atom "atom", s, a, sh] => return .atom (← decSign s) (← decStr a) (← decInt sh)
  | .list [.atom "init", s, a] => return .init (← decSign s) (← decStr a)
  | .list [.atom "kw", s, k] => return .kw (← decSign s) (← decKw k)
  | .list [.atom "tel", s, f] => return .tel (← decSign s) (← decSForm f)
  | .list [.atom "del", s, f] => return .del (← decSign s) (← decDForm f)
  | s => dfail "blit" s

def decHead : Sexp → D Head
  | .list [.atom "atom", a, n] => return .atom (← decStr a) (← decNat n)
  | .list (.atom "disj" :: as) => return .disj (← as.mapM decStr)
  | .list (.atom "choice" :: as) => return .choice (← as.mapM decStr)
  | .list [.atom "falsum"] => pure .falsum
  | .list [.atom "nlit", s, a, n] => return .nlit (← decSign s) (← decStr a) (← decNat n)
  | .list [.atom "tel", f] => return .tel (← decSForm f)
  | s => dfail "head" s

def decRule : Sexp → D TRule
  | .list [.atom "rule", p, hd, .list body] =>
      return { part := ← decPart p, head := ← decHead hd, body := ← body.mapM decBLit }
  | s => dfail "rule" s

def decList {α} (f : Sexp → D α) : Sexp → D (List α)
  | .list xs => xs.mapM f
  | s => dfail "list" s

/-- a trace given as the list of true atoms per state -/
def decTrace (s : Sexp) : D Trace := do
  let states ← decList (decList decStr) s
  let arr := states.toArray
  return fun k a => (arr.getD k []).contains a

end TelSpec
