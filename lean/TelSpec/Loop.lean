/-
Specification of the solving loop (C08), as the property states it:
horizons 0,1,2,… ; never more than `imax` calls; at least `min(imin, imax)`;
after that stop at the first horizon whose result matches the stop criterion.
-/
namespace TelSpec

/-- result of one `solve` call as far as the loop looks at it -/
inductive SolveResult where
  | sat | unsat | unknown
  deriving Repr, DecidableEq, Inhabited

inductive Stop where
  | sat | unsat | unknown
  deriving Repr, DecidableEq, Inhabited

def Stop.ofString? : String → Option Stop
  | "SAT" => some .sat | "UNSAT" => some .unsat | "UNKNOWN" => some .unknown | _ => none

def Stop.matches : Stop → SolveResult → Bool
  | .sat, .sat => true
  | .unsat, .unsat => true
  | .unknown, .unknown => true
  | _, _ => false

/-- may the loop stop after `n` calls, the last of which returned `last`? -/
def mayStop (imin : Int) (imax : Option Int) (istop : Stop) (n : Nat) (last : Option SolveResult) : Bool :=
  (match imax with | some m => decide (m ≤ (n : Int)) | none => false) ||
  (match last with | some r => decide (imin ≤ (n : Int)) && istop.matches r | none => false)

/-- number of solve calls made when the results of the calls are `res` (the run is cut when
    `res` is exhausted): the least `n` at which the loop may stop. -/
def specCallsFrom (imin : Int) (imax : Option Int) (istop : Stop) : List SolveResult → Nat → Option SolveResult → Nat
  | [], n, _ => n
  | r :: rs, n, last => if mayStop imin imax istop n last then n else specCallsFrom imin imax istop rs (n+1) (some r)

def specCalls (imin : Int) (imax : Option Int) (istop : Stop) (res : List SolveResult) : Nat :=
  specCallsFrom imin imax istop res 0 none

end TelSpec
