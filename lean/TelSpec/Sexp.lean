/-
S-expressions: the line protocol between the Python harness and the Lean drivers.

  sexp ::= bare | "quoted string with \" and \\ escapes" | ( sexp* )

No Mathlib, no partial functions: the parser is a fold over the token list with
an explicit stack.
-/

namespace TelSpec

inductive Sexp where
  | atom (s : String)
  | list (xs : List Sexp)
  deriving Repr, Inhabited, BEq

namespace Sexp

inductive Tok where
  | lp | rp
  | word (s : String)
  deriving Repr, BEq

/-- tokenizer state: tokens so far (reversed), current bare word (reversed chars),
    inside a quoted string?, last char was a backslash? -/
structure TokSt where
  toks : List Tok := []
  cur  : List Char := []
  pend : Bool := false      -- a word is in progress (needed for the empty string "")
  inq  : Bool := false
  esc  : Bool := false

def TokSt.flush (s : TokSt) : TokSt :=
  if s.pend then { s with toks := Tok.word (String.ofList s.cur.reverse) :: s.toks, cur := [], pend := false }
  else s

def tokStep (s : TokSt) (c : Char) : TokSt :=
  if s.inq then
    if s.esc then { s with cur := c :: s.cur, esc := false }
    else if c == '\\' then { s with esc := true }
    else if c == '"' then { s with inq := false }
    else { s with cur := c :: s.cur }
  else if c == '"' then { s with inq := true, pend := true }
  else if c == '(' then { s.flush with toks := Tok.lp :: s.flush.toks }
  else if c == ')' then { s.flush with toks := Tok.rp :: s.flush.toks }
  else if c == ' ' || c == '\n' || c == '\t' || c == '\r' then s.flush
  else { s with cur := c :: s.cur, pend := true }

def tokenize (s : String) : List Tok :=
  ((s.toList.foldl tokStep {}).flush).toks.reverse

/-- parser: stack of partially built lists (each reversed) -/
def parseToks : List Tok → List (List Sexp) → Option Sexp
  | [], [[x]] => some x
  | [], _ => none
  | Tok.lp :: ts, st => parseToks ts ([] :: st)
  | Tok.rp :: ts, top :: nxt :: st => parseToks ts ((Sexp.list top.reverse :: nxt) :: st)
  | Tok.rp :: _, _ => none
  | Tok.word w :: ts, top :: st => parseToks ts ((Sexp.atom w :: top) :: st)
  | Tok.word _ :: _, [] => none

def parse (s : String) : Option Sexp := parseToks (tokenize s) [[]]

def quote (s : String) : String :=
  "\"" ++ String.ofList (s.toList.flatMap fun c => if c == '"' || c == '\\' then ['\\', c] else [c]) ++ "\""

partial def toStr : Sexp → String
  | atom s => quote s
  | list xs => "(" ++ " ".intercalate (xs.map toStr) ++ ")"

def asNat? : Sexp → Option Nat
  | atom s => s.toNat?
  | _ => none

def asInt? : Sexp → Option Int
  | atom s => s.toInt?
  | _ => none

def asStr? : Sexp → Option String
  | atom s => some s
  | _ => none

end Sexp
end TelSpec
