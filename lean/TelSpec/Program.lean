/-
Specification of ground temporal logic programs (the typed fragment) and their
temporal stable models on traces of length `h+1` (temporal equilibrium logic on
finite traces, TEL_f).

A rule in part `initial` holds at position 0, `always` at every position,
`dynamic` at every position but 0, `final` at position `h`.  Atoms that refer
outside `0..h` are false; a future head beyond `h` is falsity.
-/
import TelSpec.Formula
import TelSpec.Dynamic

namespace TelSpec

inductive Sign where
  | pos | not | notnot
  deriving Repr, DecidableEq, Inhabited

inductive Part where
  | initial | always | dynamic | final
  deriving Repr, DecidableEq, Inhabited

inductive BLit where
  | atom (s : Sign) (a : String) (shift : Int)   -- 'p (shift -1), p (0), p' (+1, constraints only)
  | init (s : Sign) (a : String)                 -- _p
  | kw (s : Sign) (k : Kw)                       -- &initial &final &true &false
  | tel (s : Sign) (f : SForm)                   -- &tel { f }   (negated or in a constraint)
  | del (s : Sign) (f : DForm)                   -- &del { f }
  deriving Repr, Inhabited

inductive Head where
  | atom (a : String) (n : Nat)                  -- p , p' , p'' ...
  | disj (as : List String)                      -- a | b | c
  | choice (as : List String)                    -- { a ; b }
  | falsum                                       -- integrity constraint
  | nlit (s : Sign) (a : String) (n : Nat)       -- not p' :- ... / not not p :- ...
  | tel (f : SForm)                              -- &tel { f } :- ...
  deriving Repr, Inhabited

structure TRule where
  part : Part
  head : Head
  body : List BLit
  deriving Repr, Inhabited

abbrev TProg := List TRule

def Part.applies (h : Nat) : Part → Nat → Bool
  | .initial, k => k == 0
  | .always, _ => true
  | .dynamic, k => 0 < k
  | .final, k => k == h

def Sign.app (s : Sign) (here there : Bool) : Bool :=
  match s with
  | .pos => here
  | .not => !there
  | .notnot => there

/-- value of atom `a` at the (possibly out-of-range) position `j` -/
def atPos (h : Nat) (W : Trace) (a : String) (j : Int) : Bool :=
  if 0 ≤ j ∧ j ≤ (h : Int) then W j.toNat a else false

def Kw.holds (h k : Nat) : Kw → Bool
  | .ktrue => true
  | .kfalse => false
  | .kinitial => k == 0
  | .kfinal => k == h

def BLit.holds (h : Nat) (W T : Trace) (k : Nat) : BLit → Bool
  | .atom s a sh => s.app (atPos h W a (k + sh)) (atPos h T a (k + sh))
  | .init s a => s.app (W 0 a) (T 0 a)
  | .kw s w => s.app (w.holds h k) (w.holds h k)
  | .tel s f => s.app (docSem h T f k) (docSem h T f k)
  | .del s f => s.app (ldlSem h T f k) (ldlSem h T f k)

def Head.holds (h : Nat) (W T : Trace) (k : Nat) : Head → Bool
  | .atom a n => atPos h W a (k + n)
  | .disj as => as.any fun a => W k a
  | .choice as => as.all fun a => W k a || !(T k a)
  | .falsum => false
  | .nlit s a n => s.app (atPos h W a (k + n)) (atPos h T a (k + n))
  | .tel f => tht h W T f k

def TRule.sat (h : Nat) (W T : Trace) (r : TRule) : Bool :=
  allUpTo h fun k => !(r.part.applies h k) || !(r.body.all (BLit.holds h W T k)) || r.head.holds h W T k

/-- `(W,T)` is a THT model of `P` (for `W ≤ T`). -/
def thtModel (h : Nat) (P : TProg) (W T : Trace) : Bool :=
  P.all fun r => r.sat h W T && r.sat h T T

/-- complementary atoms `a`, `-a` -/
def compl (a : String) : String := if a.startsWith "-" then (a.drop 1).toString else "-" ++ a

def consistent (h : Nat) (atoms : List String) (T : Trace) : Bool :=
  allUpTo h fun k => atoms.all fun a => !(T k a && T k (compl a))

/-! ### Executable enumeration over a finite atom list -/

/-- position of an atom in the atom list -/
def idxIn : List String → String → Option Nat
  | [], _ => none
  | x :: xs, a => if x == a then some 0 else (idxIn xs a).map (· + 1)

/-- interpretation from a bit mask over `atoms × (0..h)`: bit `k * |atoms| + i` is atom `i` at state `k` -/
def maskTrace (atoms : List String) (m : Nat) : Trace :=
  fun k a => match idxIn atoms a with
    | some i => m.testBit (k * atoms.length + i)
    | none => false

/-- all sub-masks of `m` (every bit of `s` is a bit of `m`), `m` itself excluded -/
def subMasks (m : Nat) (_nbits : Nat) : List Nat :=
  (List.range m).filter fun s => s &&& m == s

def isTSM (h : Nat) (atoms : List String) (P : TProg) (m : Nat) : Bool :=
  let T := maskTrace atoms m
  thtModel h P T T && consistent h atoms T &&
    (subMasks m (atoms.length * (h+1))).all fun s => !(thtModel h P (maskTrace atoms s) T)

/-- all temporal stable models, as masks -/
def tsmMasks (h : Nat) (atoms : List String) (P : TProg) : List Nat :=
  (List.range (2 ^ (atoms.length * (h+1)))).filter (isTSM h atoms P)

/-- printable form: sorted list of "a(k)"-style pairs -/
def maskAtoms (h : Nat) (atoms : List String) (m : Nat) : List (String × Nat) :=
  (List.range (h+1)).flatMap fun k => atoms.filterMap fun a =>
    if maskTrace atoms m k a then some (a, k) else none

end TelSpec

namespace TelSpec

/-! ### Temporal stable models, propositional-level definition -/

/-- `W ≤ T` on the positions `0..h` -/
def TraceLe (h : Nat) (W T : Trace) : Prop := ∀ k, k ≤ h → ∀ a, W k a = true → T k a = true
/-- `W = T` on the positions `0..h` -/
def TraceEq (h : Nat) (W T : Trace) : Prop := ∀ k, k ≤ h → ∀ a, W k a = T k a

/-- `T` is a temporal stable model of `P` over traces of length `h+1`: a total THT model `(T,T)` such
    that no `(W,T)` with `W` strictly below `T` is a THT model (temporal equilibrium logic on finite
    traces). -/
def TSM (h : Nat) (P : TProg) (T : Trace) : Prop :=
  (∀ r ∈ P, r.sat h T T = true) ∧
  ∀ W : Trace, TraceLe h W T → (∀ r ∈ P, r.sat h W T = true) → TraceEq h W T

end TelSpec
