#!/venv/bin/python
"""
Not a telingo finding — a deviation of the *trusted base* (clingo/clasp 5.x multi-shot enumeration), kept as a runnable note.

With nothing but backend statements: an external atom that is false during the first solve call and is set *free* in the
second step makes clasp list the single stable model of the second step twice (identical on every program atom).  Without
the first solve call the model is listed once.  telingo uses exactly this pattern for `>`/`>:` beyond the horizon
(Next.do_translate: add_external(lit, False/True) ... later add_external(lit, Free) + make_equal), so programs with head
formulas and a next operator can be reported with repeated answer sets, e.g.

    #program always. &tel { &final | > b }.
    #program always. &tel { b >? a } :- not a.          (horizon 1: {b(0), a(1), b(1)} twice)

The checks therefore compare answer sets as sets wherever the property speaks about which answer sets exist (C04, C06, C12,
C16 head versions) and keep multiplicities only for C13 (body observers), where no repetition was ever observed.
"""
import clingo, sys
EXTRA = sys.argv[1:]
STEPS = [
    [("rule", [4], [-5]), ("rule", [7], [4]), ("rule", [9], []), ("ext", 11, clingo.TruthValue.False_),
     ("rule", [5], [7, -11]), ("ext", 2, clingo.TruthValue.True_)],
    [("ext", 2, clingo.TruthValue.Release), ("rule", [16], [-17]), ("rule", [19], [16]), ("ext", 11, clingo.TruthValue.Free),
     ("rule", [17, 18], [7, -5]), ("rule", [18], [9, -2]), ("rule", [17, 18], [19])],
]
def run(solve_first):
    ctl = clingo.Control(["0"] + EXTRA, message_limit=0, logger=lambda c, m: None)
    out = []
    for i, st in enumerate(STEPS):
        with ctl.backend() as b:
            for _ in range(30):
                b.add_atom()
            for s in st:
                if s[0] == "rule":
                    b.add_rule(s[1], s[2])
                else:
                    b.add_external(s[1], s[2])
        ms = []
        if i > 0 or solve_first:
            ctl.solve(on_model=lambda m: ms.append(tuple(l for l in range(1, 30) if m.is_true(l))))
        out.append(ms)
    return out
if __name__ == "__main__":
    print("with a solve call in step 0   :", run(True)[1])
    print("without a solve call in step 0:", run(False)[1])
