import random, sys, itertools, clingo, telingo
import telingo.transformers as tf
from clingo.ast import ProgramBuilder
seed = int(sys.argv[1]); N = int(sys.argv[2]); H = 3
r = random.Random(seed)
AT = ['a','b']
def runall(texts, H):
    res = {}
    prg = clingo.Control(['0'], message_limit=0)
    with ProgramBuilder(prg) as bld:
        fs, parts = tf.transform(texts, bld.add)
    def om(m, step):
        res.setdefault(step, []).append(sorted(str(x) for x in m.symbols(atoms=True)))
    telingo.imain(prg, fs, parts, om, imin=H+1, imax=H+1)
    return {k: sorted(v) for k, v in res.items()}
PAST_UN = ['~','<','<:','<?','<*','<<']
PAST_BIN = ['&','|','->','<?','<*']
def gpf(d):
    if d == 0 or r.random() < .3: return r.choice(AT + ['&initial','&true'])
    if r.random() < .5: return "({} {})".format(r.choice(PAST_UN), gpf(d-1))
    return "({} {} {})".format(gpf(d-1), r.choice(PAST_BIN), gpf(d-1))
def glit():
    sign = r.choice(['', '', 'not ', 'not not '])
    k = r.random()
    if k < .15: return sign + '&initial'
    if k < .3: return sign + '_' + r.choice(AT)
    if k < .45: return r.choice(['not ', 'not not ']) + "&tel{ %s }" % gpf(2)
    return sign + "'"*r.choice([0,0,1,2]) + r.choice(AT)
def grule():
    part = r.choice(['initial','always','dynamic'])
    k = r.random(); body = [glit() for _ in range(r.randint(0,3))]
    if k < .2: head = ""; body = body or [glit()]
    elif k < .5: head = r.choice(AT)
    elif k < .7: head = "a | b"
    else: head = "{" + ";".join(r.sample(AT, r.randint(1,2))) + "}"
    return "#program {}. {}{}.".format(part, head, " :- " + ", ".join(body) if body else "")
def user(m): return [x for x in m if not x.startswith('__')]
import re
bad = 0
for it in range(N):
    rules = [grule() for _ in range(r.randint(1,5))]
    try:
        res = runall([" ".join(rules)], H)
    except Exception as e:
        print("EXC", e, rules); bad += 1; continue
    # C09
    for h, ms in res.items():
        for m in ms:
            times = [int(re.search(r'(-?\d+)\)$', x).group(1)) for x in m]
            if any(t < 0 or t > h for t in times) or [x for x in m if x.startswith('__initial')] != ['__initial(0)'] or [x for x in m if x.startswith('__final')] != ['__final(%d)' % h]:
                print("C09 BAD", h, m, rules); bad += 1
    # C17
    for h in range(H):
        prev = set(tuple(user(m)) for m in res.get(h, []))
        for m in res.get(h+1, []):
            pre = tuple(x for x in user(m) if not x.endswith("(%d)" % (h+1)) and not x.endswith(",%d)" % (h+1)))
            if pre not in prev:
                print("C17 BAD", h, pre, rules); bad += 1; break
    # C12: permutation + duplication + split into files
    rr = rules[:] ; r.shuffle(rr); rr.append(r.choice(rules))
    cut = r.randint(0, len(rr))
    res2 = runall([" ".join(rr[:cut]), " ".join(rr[cut:])], H)
    a = {h: sorted(set(tuple(user(m)) for m in ms)) for h, ms in res.items()}
    b = {h: sorted(set(tuple(user(m)) for m in ms)) for h, ms in res2.items()}
    a2 = {h: sorted(tuple(user(m)) for m in ms) for h, ms in res.items()}
    b2 = {h: sorted(tuple(user(m)) for m in ms) for h, ms in res2.items()}
    if a != b or a2 != b2:
        print("C12 BAD", rules, rr, cut); bad += 1
print("done", N, "bad", bad)
