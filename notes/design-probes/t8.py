import random, sys, itertools
from h import run
seed = int(sys.argv[1]); N = int(sys.argv[2]); H = int(sys.argv[3]); NA = int(sys.argv[4]) if len(sys.argv) > 4 else 2
r = random.Random(seed)
AT = ['a','b','c'][:NA]
# head formulas: atoms, &true,&false,&initial,&final, ~f, f&g, f|g, >f, >:f, n>f, n>:f, >?f, >*f, >>f, f>?g, f>*g, f;>g, f;>:g
def gh(d):
    if d == 0 or r.random() < 0.25:
        return r.choice(AT*3 + ['&true','&false','&initial','&final'])
    k = r.random()
    if k < 0.15: return ('~', gh(d-1))
    if k < 0.45: return (r.choice(['>','>:','>?','>*','>>']), gh(d-1))
    if k < 0.55: return ('n', r.choice(['>','>:']), r.randint(0,2), gh(d-1))
    return (r.choice(['&','|','|','>?','>*',';>',';>:']), gh(d-1), gh(d-1))
def show(f):
    if isinstance(f, str): return f
    if f[0] == 'n': return "({} {} {})".format(f[2], f[1], show(f[3]))
    if len(f) == 2: return "({} {})".format(f[0], show(f[1]))
    return "({} {} {})".format(show(f[1]), f[0], show(f[2]))
# THT sat: w in (0: here, 1: there). M = (Hs, T) sets of (atom,time); h horizon
def sat(f, M, w, k, h):
    if isinstance(f, str):
        if f == '&true': return True
        if f == '&false': return False
        if f == '&initial': return k == 0
        if f == '&final': return k == h
        return (f, k) in M[w]
    op = f[0]
    if op == 'n':
        o, n, g = f[1], f[2], f[3]
        if n == 0: return sat(g, M, w, k, h)
        return sat(g, M, w, k+n, h) if k+n <= h else o == '>:'
    if len(f) == 2:
        g = f[1]
        if op == '~': return not sat(g, M, 1, k, h)
        if op == '>': return k < h and sat(g, M, w, k+1, h)
        if op == '>:': return k == h or sat(g, M, w, k+1, h)
        if op == '>?': return any(sat(g, M, w, j, h) for j in range(k, h+1))
        if op == '>*': return all(sat(g, M, w, j, h) for j in range(k, h+1))
        if op == '>>': return sat(g, M, w, h, h)
    a, b = f[1], f[2]
    if op == '&': return sat(a, M, w, k, h) and sat(b, M, w, k, h)
    if op == '|': return sat(a, M, w, k, h) or sat(b, M, w, k, h)
    if op == '>?': return any(sat(b, M, w, j, h) and all(sat(a, M, w, i, h) for i in range(k, j)) for j in range(k, h+1))
    if op == '>*': return all(sat(b, M, w, j, h) or any(sat(a, M, w, i, h) for i in range(k, j)) for j in range(k, h+1))
    if op == ';>': return sat(a, M, w, k, h) and k < h and sat(b, M, w, k+1, h)
    if op == ';>:': return sat(a, M, w, k, h) and (k == h or sat(b, M, w, k+1, h))
    raise Exception(op)
PARTS = ['initial','always','dynamic']
def applies(part, k, h):
    return (part == 'initial' and k == 0) or part == 'always' or (part == 'dynamic' and k > 0) or (part == 'final' and k == h)
# program: list of (part, kind, payload): kind 'hf': (formula, bodyatoms pos list, neg list); 'ch': atoms; 'fact'
def model_ok(prog, M, h):
    for part, kind, pl in prog:
        for k in range(h+1):
            if not applies(part, k, h): continue
            if kind == 'hf':
                f, pos, neg = pl
                for w in (0, 1):
                    if all((p, k) in M[w] for p in pos) and not any((n, k) in M[1] for n in neg):
                        if not sat(f, M, w, k, h): return False
            elif kind == 'ch':
                pass
            elif kind == 'n':
                hd, pos, neg = pl
                for w in (0, 1):
                    if all((p, k) in M[w] for p in pos) and not any((n, k) in M[1] for n in neg):
                        if (hd, k) not in M[w]: return False
    return True
def choice_atoms(prog, h):
    s = set()
    for part, kind, pl in prog:
        if kind == 'ch':
            for k in range(h+1):
                if applies(part, k, h): s |= {(a, k) for a in pl}
    return s
def tsm(prog, h):
    U = [(a, k) for k in range(h+1) for a in AT]
    CH = choice_atoms(prog, h)
    out = set()
    for bits in itertools.product([0,1], repeat=len(U)):
        T = frozenset(u for u, b in zip(U, bits) if b)
        if not model_ok(prog, (T, T), h): continue
        TL = sorted(T - CH)  # choice atoms in T must be in H (x | ~x)
        ok = True
        for sub in itertools.product([0,1], repeat=len(TL)):
            if all(sub): continue
            Hs = frozenset(u for u, b in zip(TL, sub) if b) | (T & CH)
            if model_ok(prog, (Hs, T), h): ok = False; break
        if ok: out.add(tuple(sorted("{}({})".format(a, k) for a, k in T)))
    return out
def sprog(prog):
    out = []
    for part, kind, pl in prog:
        if kind == 'hf':
            f, pos, neg = pl
            b = ", ".join(pos + ["not " + n for n in neg])
            out.append("#program {}. &tel{{ {} }}{}.".format(part, show(f), " :- " + b if b else ""))
        elif kind == 'ch': out.append("#program {}. {{{}}}.".format(part, ";".join(pl)))
        else:
            hd, pos, neg = pl
            b = ", ".join(pos + ["not " + n for n in neg])
            out.append("#program {}. {}{}.".format(part, hd, " :- " + b if b else ""))
    return " ".join(out)
bad = 0
for it in range(N):
    prog = []
    for _ in range(r.randint(1, 2)):
        pos = [r.choice(AT)] if r.random() < 0.3 else []
        neg = [r.choice(AT)] if r.random() < 0.15 else []
        prog.append((r.choice(PARTS), 'hf', (gh(r.randint(1, 3)), pos, neg)))
    if r.random() < 0.5: prog.append((r.choice(PARTS), 'ch', r.sample(AT, r.randint(1, len(AT)))))
    if r.random() < 0.4: prog.append((r.choice(PARTS), 'n', (r.choice(AT), [r.choice(AT)] if r.random() < .6 else [], [r.choice(AT)] if r.random() < .3 else [])))
    s = sprog(prog)
    try:
        res = run(s, H)
    except Exception as e:
        print("EXC", type(e).__name__, e, s); bad += 1; continue
    for h in range(H+1):
        got = set(tuple(m) for m in res.get(h, []))
        exp = tsm(prog, h)
        if got != exp:
            bad += 1
            print("MISMATCH h=%d" % h, s, "\n   missing", sorted(exp-got)[:2], "extra", sorted(got-exp)[:2])
            break
print("done", N, "bad", bad)
