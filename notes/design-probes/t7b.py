import random, sys, itertools
from h import run
seed = int(sys.argv[1]); N = int(sys.argv[2]); H = int(sys.argv[3]) if len(sys.argv) > 3 else 2
r = random.Random(seed)
AT = ['a','b','c'][:int(sys.argv[4]) if len(sys.argv) > 4 else 2]
PARTS = ['initial','always','dynamic','final']
# literal: (sign, kind, atom, shift) kind: 'atom' | 'initially' | 'kw'
def glit(allow_future):
    k = r.random()
    sign = r.choice(['', '', 'not ', 'not not '])
    if k < 0.12: return (sign, 'kw', r.choice(['&initial','&final']), 0)
    if k < 0.22: return (sign, 'init', r.choice(AT), 0)
    sh = r.choice([0,0,0,-1,-1,-2] + ([1,1,2] if allow_future else []))
    return (sign, 'atom', r.choice(AT), sh)
def slit(l):
    sign, kind, a, sh = l
    if kind == 'kw': return sign + a
    if kind == 'init': return sign + '_' + a
    return sign + "'"*max(0,-sh) + a + "'"*max(0,sh)
def grule():
    k = r.random()
    nb = r.randint(0, 3)
    if k < 0.12:
        head = ('nh', r.choice(AT), r.choice([0,1,1,2]), r.choice(['not ','not not '])); body = [glit(True) for _ in range(nb)]
    elif k < 0.25:
        head = ('c',); body = [glit(True) for _ in range(max(1,nb))]
    elif k < 0.5:
        head = ('n', r.choice(AT), r.choice([0,0,0,1,1,2])); body = [glit(False) for _ in range(nb)]
    elif k < 0.7:
        head = ('d', r.sample(AT, 2)); body = [glit(False) for _ in range(nb)]
    else:
        head = ('ch', r.sample(AT, r.randint(1,len(AT)))); body = [glit(False) for _ in range(nb)]
    return (r.choice(PARTS), head, body)
def srule(ru):
    part, head, body = ru
    if head[0] == 'c': hs = ""
    elif head[0] == 'nh': hs = head[3] + head[1] + "'"*head[2]
    elif head[0] == 'n': hs = head[1] + "'"*head[2]
    elif head[0] == 'd': hs = " | ".join(head[1])
    else: hs = "{" + ";".join(head[1]) + "}"
    return "#program {}. {}{}.".format(part, hs, (" :- " + ", ".join(map(slit, body))) if body else "")
def applies(part, k, h):
    return (part == 'initial' and k == 0) or part == 'always' or (part == 'dynamic' and k > 0) or (part == 'final' and k == h)
def ground(rules, h):
    g = []
    for part, head, body in rules:
        for k in range(h+1):
            if not applies(part, k, h): continue
            pos, neg, nn = [], [], []; dead = False
            def add(sign, val):  # val: ('a', atom,time) | True | False
                nonlocal dead
                if val is True or val is False:
                    v = val if sign == '' or sign == 'not not ' else (not val)
                    if not v: dead = True
                    return
                {'' : pos, 'not ': neg, 'not not ': nn}[sign].append(val)
            for sign, kind, a, sh in body:
                if kind == 'kw': add(sign, (k == 0) if a == '&initial' else (k == h))
                elif kind == 'init': add(sign, (a, 0))
                else:
                    j = k + sh
                    add(sign, (a, j) if 0 <= j <= h else False)
            if dead: continue
            if head[0] == 'c': hh = ('d', [])
            elif head[0] == 'nh':
                j = k + head[2]
                # not p :- B  ==  :- B, not not p ; not not p :- B == :- B, not p
                if head[3] == 'not ':
                    if j > h: continue
                    nn = nn + [(head[1], j)]
                else:
                    if j <= h: neg = neg + [(head[1], j)]
                hh = ('d', [])
            elif head[0] == 'n':
                j = k + head[2]
                hh = ('d', [(head[1], j)]) if j <= h else ('d', [])
            elif head[0] == 'd': hh = ('d', [(a, k) for a in head[1]])
            else: hh = ('ch', [(a, k) for a in head[1]])
            g.append((hh, pos, neg, nn))
    return g
def sat(g, Hs, T):
    for (hk, hd), pos, neg, nn in g:
        if any(x in T for x in neg) or any(x not in T for x in nn): continue
        if all(x in T for x in pos):
            if hk == 'd' and not any(x in T for x in hd): return False
        if all(x in Hs for x in pos):
            if hk == 'd':
                if not any(x in Hs for x in hd): return False
            else:
                if not all((x in Hs) or (x not in T) for x in hd): return False
    return True
def tsm(rules, h):
    U = [(a, k) for k in range(h+1) for a in AT]
    out = set()
    for bits in itertools.product([0,1], repeat=len(U)):
        T = frozenset(u for u, b in zip(U, bits) if b)
        if not sat(g := ground(rules, h), T, T): continue
        TL = sorted(T); ok = True
        for sub in itertools.product([0,1], repeat=len(TL)):
            if all(sub): continue
            Hs = frozenset(u for u, b in zip(TL, sub) if b)
            if sat(g, Hs, T): ok = False; break
        if ok: out.add(tuple(sorted("{}({})".format(a, k) for a, k in T)))
    return out
bad = 0
for it in range(N):
    rules = [grule() for _ in range(r.randint(1, 5))]
    prog = " ".join(map(srule, rules))
    try:
        res = run(prog, H)
    except Exception as e:
        print("EXC", type(e).__name__, e, prog); bad += 1; continue
    for h in range(H+1):
        got = set(tuple(m) for m in res.get(h, []))
        exp = tsm(rules, h)
        if got != exp:
            bad += 1
            print("MISMATCH h=%d" % h, prog, "\n   missing", sorted(exp-got)[:2], "extra", sorted(got-exp)[:2])
            break
print("done", N, "bad", bad)
