namespace Scratch2

inductive F where
  | atom (a : Nat)
  | neg (f : F)
  | and (f g : F)
  | next (weak : Bool) (f : F)
  | unt (l r : F)
  | snc (l r : F)

abbrev Trace := Nat → Nat → Bool

/-- specification: LTL_f on positions 0..h, by recursion on the formula; until/since by bounded search -/
def untilFrom (h : Nat) (L R : Nat → Bool) : (fuel : Nat) → Nat → Bool
  | 0, _ => false
  | fuel+1, k => if k > h then false else R k || (L k && untilFrom h L R fuel (k+1))

def sinceTo (L R : Nat → Bool) : Nat → Bool
  | 0 => R 0
  | k+1 => R (k+1) || (L (k+1) && sinceTo L R k)

def sem (h : Nat) (tr : Trace) : F → Nat → Bool
  | .atom a, k => tr k a
  | .neg f, k => !sem h tr f k
  | .and f g, k => sem h tr f k && sem h tr g k
  | .next w f, k => if k + 1 ≤ h then sem h tr f (k+1) else w
  | .unt l r, k => untilFrom h (sem h tr l) (sem h tr r) (h + 1 - k) k
  | .snc l r, k => sinceTo (sem h tr l) (sem h tr r) k

/-- the one-step equations the translation emits (as clauses) for every (formula, step) -/
structure Sol (h : Nat) (tr : Trace) (v : F → Nat → Bool) : Prop where
  atom : ∀ a k, k ≤ h → v (.atom a) k = tr k a
  neg : ∀ f k, k ≤ h → v (.neg f) k = !v f k
  and : ∀ f g k, k ≤ h → v (.and f g) k = (v f k && v g k)
  next : ∀ w f k, k ≤ h → v (.next w f) k = if k + 1 ≤ h then v f (k+1) else w
  unt : ∀ l r k, k ≤ h → v (.unt l r) k = (v r k || (v l k && v (.next false (.unt l r)) k))
  snc0 : ∀ l r, v (.snc l r) 0 = v r 0
  snc : ∀ l r k, k + 1 ≤ h → v (.snc l r) (k+1) = (v r (k+1) || (v l (k+1) && v (.snc l r) k))

theorem untilFrom_congr (h : Nat) (L R L' R' : Nat → Bool) (hL : ∀ k, k ≤ h → L k = L' k)
    (hR : ∀ k, k ≤ h → R k = R' k) : ∀ fuel k, untilFrom h L R fuel k = untilFrom h L' R' fuel k := by
  intro fuel
  induction fuel with
  | zero => intro k; rfl
  | succ n ih =>
    intro k
    simp only [untilFrom]
    split
    · rfl
    · rename_i hk
      have hk' : k ≤ h := by omega
      rw [hL k hk', hR k hk', ih]

theorem tseitin_unique (h : Nat) (tr : Trace) (v : F → Nat → Bool) (hv : Sol h tr v) :
    ∀ f k, k ≤ h → v f k = sem h tr f k := by
  intro f
  induction f with
  | atom a => intro k hk; simp [sem, hv.atom a k hk]
  | neg f ih => intro k hk; simp [sem, hv.neg f k hk, ih k hk]
  | and f g ihf ihg => intro k hk; simp [sem, hv.and f g k hk, ihf k hk, ihg k hk]
  | next w f ih =>
    intro k hk
    rw [hv.next w f k hk]
    simp only [sem]
    split
    · rename_i h1; exact ih (k+1) h1
    · rfl
  | unt l r ihl ihr =>
    -- downward induction on the distance to the horizon
    have key : ∀ d k, k ≤ h → h - k = d →
        v (.unt l r) k = untilFrom h (v l) (v r) (h + 1 - k) k := by
      intro d
      induction d with
      | zero =>
        intro k hk hd
        have hkh : k = h := by omega
        subst hkh
        rw [hv.unt l r k hk, hv.next false _ k hk]
        have : k + 1 - k = 1 := by omega
        have h2 : ¬ (k + 1 ≤ k) := by omega
        simp [this, untilFrom, h2]
      | succ d ihd =>
        intro k hk hd
        rw [hv.unt l r k hk, hv.next false _ k hk]
        have h1 : k + 1 ≤ h := by omega
        have e : h + 1 - k = (h + 1 - (k+1)) + 1 := by omega
        rw [e]
        simp only [untilFrom, h1, if_true]
        have : ¬ k > h := by omega
        simp only [this, if_false]
        rw [ihd (k+1) h1 (by omega)]
    intro k hk
    rw [key (h - k) k hk rfl]
    simp only [sem]
    exact untilFrom_congr h _ _ _ _ ihl ihr _ _
  | snc l r ihl ihr =>
    intro k
    induction k with
    | zero => intro _; simp [sem, sinceTo, hv.snc0, ihr 0 (Nat.zero_le _)]
    | succ k ihk =>
      intro hk
      rw [hv.snc l r k hk]
      simp only [sem, sinceTo] at ihk ⊢
      rw [ihk (by omega), ihl (k+1) hk, ihr (k+1) hk]

#print axioms tseitin_unique
end Scratch2
