import random, sys
from h import run
r = random.Random(int(sys.argv[1])); N = int(sys.argv[2]); H = 3
PARTS = ['initial','always','dynamic','final']
def term(): return r.choice(['X','X','X+1','3-X','(X;X+1)','1..X'])
def atom(p): return "{}({})".format(p, term()) if r.random()<.8 else p
def blit():
    k = r.random()
    s = r.choice(['','','not ','not not '])
    if k < .5: return s + r.choice(["","'","''","_"]) + atom(r.choice('pq')).replace('(X;X+1)','X').replace('1..X','X')
    if k < .65: return r.choice(['not ','not not ']) + "&tel{ %s }" % bform()
    if k < .75: return "X %s %d" % (r.choice(['<','!=','>=']), r.randint(1,2))
    return s + r.choice(['&initial','&final'])
def bform():
    a = lambda: r.choice(["p(X)","q(X)","p(X+1)","q(3-X)","-p(X)"])
    k = r.random()
    if k < .3: return "X %s %s" % (r.choice(['>','<','>:','<:']), a())
    if k < .5: return "%s %s %s" % (a(), r.choice(['&','|','>?','<*',';>','->']), a())
    if k < .7: return "%s %s" % (r.choice(['>?','<*','~','>','<<','>>']), a())
    return "X-1 > (%s & < %s)" % (a(), a())
def hform():
    a = lambda: r.choice(["p(X)","q(X)","p(X+1)","-p(X)"])
    k = r.random()
    if k < .35: return "X %s %s" % (r.choice(['>','>:']), a())
    if k < .6: return "%s %s %s" % (a(), r.choice(['&','|','>?','>*',';>']), a())
    if k < .8: return "%s %s" % (r.choice(['>?','>*','~','>','>>']), a())
    return "X+1 > (%s | %s)" % (a(), a())
def rule():
    part = r.choice(PARTS); k = r.random()
    body = [blit() for _ in range(r.randint(0,2))] + ["d(X)"]
    if k < .2: head = ""
    elif k < .45: head = atom(r.choice('pq')).replace('1..X','X') + r.choice(["","","'"])
    elif k < .6: head = "{%s}" % atom(r.choice('pq'))
    elif k < .7: head = "p(X) | q(X)"
    elif k < .9: head = "&tel{ %s }" % hform()
    else: head = "-p(X)"
    if "'" in head.split("(")[0] or head.endswith("'"):
        body = [b for b in body if "&tel" not in b]
    return part, "{} :- {}.".format(head, ", ".join(body))
bad = exc = 0
for it in range(N):
    rules = [rule() for _ in range(r.randint(1,4))]
    base = "#program always. d(1..2). {p(1..3)}. "
    schema = base + " ".join("#program %s. %s" % (p, t) for p, t in rules)
    inst = base + " ".join("#program %s. %s %s" % (p, t.replace('X','1'), t.replace('X','2')) for p, t in rules)
    try:
        a = run(schema, H)
    except Exception as e:
        a = ("EXC", type(e).__name__, str(e)[:60])
    try:
        b = run(inst, H)
    except Exception as e:
        b = ("EXC", type(e).__name__, str(e)[:60])
    if isinstance(a, tuple) or isinstance(b, tuple):
        exc += 1
        if (isinstance(a, tuple) != isinstance(b, tuple)) or (isinstance(a, tuple) and a[1] != 'RuntimeError'):
            bad += 1; print("EXC-DIFF", a if isinstance(a, tuple) else "ok", b if isinstance(b, tuple) else "ok", "\n  ", schema)
        continue
    if a != b:
        bad += 1
        hh = [h for h in range(H+1) if a.get(h) != b.get(h)][0]
        print("MISMATCH h=%d" % hh, schema, "\n  ", inst, "\n  schema-only", [m for m in a.get(hh, []) if m not in b.get(hh, [])][:2], "inst-only", [m for m in b.get(hh, []) if m not in a.get(hh, [])][:2])
print("done", N, "bad", bad, "exc", exc)
