# prototype of the mechanism-level ground program G(P,h) of DESIGN §4.3, solved by clingo, vs telingo
import sys, random, clingo
sys.argv_backup = sys.argv[:]
import importlib
seed = int(sys.argv[1]); N = int(sys.argv[2]); H = int(sys.argv[3])
sys.argv = [sys.argv[0], str(seed), "0", str(H), "2"]
t7b = importlib.import_module("t7b")   # reuse generator (its own loop runs 0 times)
from h import run
r = t7b.r; AT = t7b.AT
def part_ok(root, k):
    return (root == 'always' and k >= 0) or (root == 'dynamic' and k > 0) or (root == 'initial' and k == 0)
def G(rules, h):
    out = []; futs = set()
    # classify
    norm, look = [], {}
    for part, head, body in rules:
        root = 'always' if part == 'final' else part
        final = part == 'final'
        isc = head[0] in ('c', 'nh')
        n = 0
        if isc:
            n = max([l[3] for l in body if l[1] == 'atom'] + ([head[2]] if head[0] == 'nh' else []) + [0])
        if isc and n > 0 and not final: look.setdefault((root, n), []).append((head, body))
        else: norm.append((root, final, head, body))
        if head[0] == 'n' and head[2] > 0: futs.add((head[1], head[2]))
    def lit(sign, val):  # val: atom string | True | False ; returns None if literal true, 'DEAD' if false
        if val is True or val is False:
            v = val if sign in ('', 'not not ') else (not val)
            return None if v else 'DEAD'
        return sign + val
    def inst(head, body, t, s, final, extra=None):
        bs = []
        def ua(a, j): return "{}({})".format(a, j) if 0 <= j <= s else False
        for sign, kind, a, sh in body:
            if kind == 'kw': v = (t == 0) if a == '&initial' else "xfinal({})".format(t)
            elif kind == 'init': v = ua(a, 0)
            else: v = ua(a, t + sh)
            l = lit(sign, v)
            if l == 'DEAD': return
            if l: bs.append(l)
        if final: bs.append("xfinal({})".format(t))
        if extra: bs.append(extra)
        if head[0] == 'c': hs = ""
        elif head[0] == 'nh':
            v = ua(head[1], t + head[2])
            # not p :- B  == :- B, not not p ; not not p :- B == :- B, not p
            l = lit('not not ' if head[3] == 'not ' else 'not ', v)
            if l == 'DEAD': return
            if l: bs.append(l)
            hs = ""
        elif head[0] == 'n':
            hs = "{}({})".format(head[1], t) if head[2] == 0 else "fut_{}({},{})".format(head[1], head[2], t + head[2])
        elif head[0] == 'd': hs = "; ".join("{}({})".format(a, t) for a in head[1])
        else: hs = "{" + "; ".join("{}({})".format(a, t) for a in head[1]) + "}"
        if not hs and not bs: bs = ["#true"]
        out.append(hs + (" :- " + ", ".join(bs) if bs else "") + ".")
    for s in range(h + 1):
        for root, final, head, body in norm:
            if part_ok(root, s): inst(head, body, s, s, final)
        for a, n in sorted(futs):
            out.append("{0}({1}) :- fut_{0}({2},{1}).".format(a, s, n))
        for (root, n), rs in look.items():
            for i in range(n):           # temporary copies, guarded by __final(u), u = s
                if part_ok(root, s - i):
                    for head, body in rs: inst(head, body, s - i, s, False, "xfinal({})".format(s))
            if part_ok(root, s - n):     # permanent copy
                for head, body in rs: inst(head, body, s - n, s, False)
    out.append("xfinal({}).".format(h))                     # external: true only for the current horizon
    for a, n in futs:                                       # assumptions
        out.append(":- fut_{}({},K), K > {}.".format(a, n, h))
    return "\n".join(out)
def solve(txt):
    c = clingo.Control(['0'], message_limit=0); c.add("base", [], txt); c.ground([("base", [])])
    ms = []
    c.solve(on_model=lambda m: ms.append(tuple(sorted(str(x) for x in m.symbols(atoms=True) if not str(x).startswith(('xfinal', 'fut_'))))))
    return sorted(ms)
bad = 0
for it in range(N):
    rules = [t7b.grule() for _ in range(r.randint(1, 5))]
    prog = " ".join(map(t7b.srule, rules))
    res = run(prog, H)
    for h in range(H + 1):
        got = sorted(tuple(m) for m in res.get(h, []))
        mod = solve(G(rules, h))
        if got != mod:
            bad += 1; print("MISMATCH h=%d" % h, prog, "\n  telingo", got[:3], "\n  model  ", mod[:3], "\n" + G(rules, h)); break
print("done", N, "bad", bad)
