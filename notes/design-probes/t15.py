# C07 probe: gringo body parser vs python head parser vs fully parenthesised, on random token strings over head ops
import random, sys, clingo
import telingo.transformers as tf
from clingo.ast import ProgramBuilder, parse_string
from telingo.transformers.head import parse_raw_formula, TheoryParser
r = random.Random(int(sys.argv[1])); N = int(sys.argv[2])
UN = ['~','>','>:','>?','>*','>>','-']
BIN = ['>','>:','>*','>?','&','|',';>',';>:','+','-']
def dump(t):
    T = clingo.TheoryTermType
    if t.type == T.Number: return str(t.number)
    if t.type == T.Symbol: return t.name
    if t.type == T.Function: return "%s(%s)" % (t.name, ",".join(map(dump, t.arguments)))
    return "%s[%s]" % (t.type, ",".join(map(dump, t.arguments)))
def gringo(s):
    prg = clingo.Control(message_limit=0)
    with ProgramBuilder(prg) as b:
        tf.transform(["#program initial. :- &tel{ %s }." % s], b.add)
    prg.ground([("initial", [clingo.Number(0), clingo.Number(0)])])
    for a in prg.theory_atoms: return dump(a.elements[0].terms[0])
def py(s):
    out = []
    def on(st):
        if str(st.ast_type).endswith("Rule") and str(st.head.ast_type).endswith("TheoryAtom"):
            out.append(str(parse_raw_formula(st.head.elements[0].terms[0])))
    parse_string("&tel{ %s }." % s, on)
    return out[0]
bad = 0
for _ in range(N):
    n = r.randint(2, 4)
    toks = []
    for i in range(n):
        for _ in range(r.choice([0,0,1,1,2])): toks.append(r.choice(UN))
        toks.append(r.choice(['a','b','c','1','2']))
        if i < n-1: toks.append(r.choice(BIN))
    s = " ".join(toks)
    try:
        g, p = gringo(s), py(s)
    except Exception as e:
        print("EXC", s, e); continue
    if g != p:
        bad += 1; print("DIFF", s, "\n  gringo", g, "\n  python", p)
print("done", N, "bad", bad)
