import random, sys, itertools
from h import run
seed = int(sys.argv[1]); N = int(sys.argv[2]); H = 3
r = random.Random(seed)
AT = ['a','b']
def gpath(d, consuming):
    # consuming: must consume a step (normal form under star)
    k = r.random()
    if d == 0 or k < 0.25:
        if consuming: return r.choice(['&true'] + AT)
        return r.choice(['&true'] + AT + [('?', r.choice(AT + ['&true','&false']))])
    if k < 0.5: return ('+', gpath(d-1, consuming), gpath(d-1, consuming))
    if k < 0.8:
        if consuming:
            if r.random() < .5: return (';;', gpath(d-1, True), gpath(d-1, False))
            return (';;', gpath(d-1, False), gpath(d-1, True))
        return (';;', gpath(d-1, False), gpath(d-1, False))
    if consuming: return (';;', ('*', gpath(d-1, True)), gpath(d-1, True))
    return ('*', gpath(d-1, True))
def gform(d):
    if d == 0 or r.random() < 0.3: return r.choice(AT + ['&true','&false','&final'])
    return (r.choice(['.>?','.>*']), gpath(2, False), gform(d-1))
def sp(p):
    if isinstance(p, str): return p
    if p[0] == '?': return "(? {})".format(p[1])
    if p[0] == '*': return "(* {})".format(sp(p[1]))
    return "({} {} {})".format(sp(p[1]), p[0], sp(p[2]))
def sf(f):
    if isinstance(f, str): return f
    return "({} {} {})".format(sp(f[1]), f[0], sf(f[2]))
def runs(p, tr, k):
    h = len(tr)-1
    if isinstance(p, str):
        if p == '&true': return {k+1} if k < h else set()
        return {k+1} if (p in tr[k] and k < h) else set()
    if p[0] == '?':
        t = p[1]
        v = True if t == '&true' else False if t == '&false' else t in tr[k]
        return {k} if v else set()
    if p[0] == '+': return runs(p[1], tr, k) | runs(p[2], tr, k)
    if p[0] == ';;': return set(j for i in runs(p[1], tr, k) for j in runs(p[2], tr, i))
    if p[0] == '*':
        seen = {k}; todo = [k]
        while todo:
            i = todo.pop()
            for j in runs(p[1], tr, i):
                if j not in seen: seen.add(j); todo.append(j)
        return seen
def ev(f, tr, k):
    h = len(tr)-1
    if isinstance(f, str):
        if f == '&true': return True
        if f == '&false': return False
        if f == '&final': return k == h
        return f in tr[k]
    rs = runs(f[1], tr, k)
    if f[0] == '.>?': return any(ev(f[2], tr, j) for j in rs)
    return all(ev(f[2], tr, j) for j in rs)
bad = 0
for it in range(N):
    fs = [gform(r.randint(1,2)) for _ in range(r.randint(1,2))]
    prog = "#program always. {a;b}. " + " ".join("w{}:- not not &del{{ {} }}.".format(i, sf(f)) for i, f in enumerate(fs))
    try:
        res = run(prog, H)
    except Exception as e:
        print("EXC", type(e).__name__, e, prog); bad += 1; continue
    for h in range(H+1):
        got = set(tuple(m) for m in res.get(h, []))
        exp = set()
        for bits in itertools.product([0,1], repeat=2*(h+1)):
            tr = [set(x for x, bb in zip('ab', bits[2*k:2*k+2]) if bb) for k in range(h+1)]
            m = []
            for k in range(h+1):
                m += ["{}({})".format(x, k) for x in tr[k]]
                for i, f in enumerate(fs):
                    if ev(f, tr, k): m.append("w{}({})".format(i, k))
            exp.add(tuple(sorted(m)))
        if got != exp:
            bad += 1
            print("MISMATCH h=%d" % h, prog, "missing", len(exp-got), "extra", len(got-exp), sorted(exp-got)[:1], sorted(got-exp)[:1])
            break
print("done", N, "bad", bad)
