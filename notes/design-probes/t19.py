import sys
import telingo.transformers as tf
P = ["#program always. p'(X) :- q(X). -r'' :- s. a'(1;2,3) :- b. zz' :- b. #program initial. &tel{ >? b(X) & 2 > c | X > d(X) & > (e & >* f) } :- X=1..2. :- not x'', y'. #program dynamic. :- z'.",
     "#program final. :- k'. #program always. &tel{ > a | >> b }. m''' :- n."]
def tr(inputs):
    out = []
    fs, parts = tf.transform(inputs, lambda s: out.append(str(s)))
    return out, fs, [(a, b, list(c)) for a, b, c in parts]
a = tr(P)
# repeated
b = tr(P)
# re-entrant: start another transform inside the callback
inner = []
def cb(s):
    if not inner: inner.append(tr(P))
out = []
fs, parts = tf.transform(P, lambda s: (cb(s), out.append(str(s))))
c = (out, fs, [(x, y, list(z)) for x, y, z in parts])
print(a == b, a == c, a == inner[0])
import hashlib
print(hashlib.sha1(repr(a).encode()).hexdigest())
