import random, sys, itertools
from h import run
from ltl import *
seed = int(sys.argv[1]); N = int(sys.argv[2]); H = 3
r = random.Random(seed)
bad = 0
for it in range(N):
    nf = r.randint(1, 2)
    fs = [gen(r, r.randint(1,3)) for _ in range(nf)]
    prog = "#program always. {a;b}. " + " ".join("w{}:- not not &tel{{ {} }}.".format(i, show(f)) for i, f in enumerate(fs))
    try:
        res = run(prog, H)
    except Exception as e:
        print("EXC", type(e).__name__, e, prog); bad += 1; continue
    for h in range(H+1):
        got = set(tuple(m) for m in res.get(h, []))
        exp = set()
        for bits in itertools.product([0,1], repeat=2*(h+1)):
            tr = [set(x for x, bb in zip('ab', bits[2*k:2*k+2]) if bb) for k in range(h+1)]
            m = []
            for k in range(h+1):
                m += ["{}({})".format(x, k) for x in tr[k]]
                for i, f in enumerate(fs):
                    if ev(f, tr, k): m.append("w{}({})".format(i, k))
            exp.add(tuple(sorted(m)))
        if got != exp:
            bad += 1
            print("MISMATCH h=%d" % h, prog, "missing", len(exp-got), "extra", len(got-exp), sorted(exp-got)[:1], sorted(got-exp)[:1])
            break
print("done", N, "bad", bad)
