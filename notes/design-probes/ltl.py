# throwaway: LTLf evaluator and random formula generator; formulas as tuples
import random
UN = ['~','<','<:','<?','<*','<<','>','>:','>?','>*','>>']
BIN = ['&','|','->','<-','<>','<?','<*','>?','>*',';>',';>:','<;','<:;']
NF = ['<','<:','>','>:']
KW = ['&true','&false','&initial','&final']
def gen(r, d, atoms=('a','b')):
    if d == 0 or r.random() < 0.2:
        return r.choice(list(atoms) + (KW if r.random()<0.3 else list(atoms)))
    k = r.random()
    if k < 0.4:
        return (r.choice(UN), gen(r, d-1, atoms))
    if k < 0.5:
        return ('n', r.choice(NF), r.randint(0,3), gen(r, d-1, atoms))
    return (r.choice(BIN), gen(r, d-1, atoms), gen(r, d-1, atoms))
def show(f):
    if isinstance(f, str): return f
    if f[0] == 'n': return "({} {} {})".format(f[2], f[1], show(f[3]))
    if len(f) == 2: return "({} {})".format(f[0], show(f[1]))
    return "({} {} {})".format(show(f[1]), f[0], show(f[2]))
def ev(f, tr, k):
    h = len(tr)-1
    if isinstance(f, str):
        if f == '&true': return True
        if f == '&false': return False
        if f == '&initial': return k == 0
        if f == '&final': return k == h
        return f in tr[k]
    op = f[0]
    if op == 'n':
        o, n, g = f[1], f[2], f[3]
        if n == 0: return ev(g, tr, k)
        j = k - n if o[0] == '<' else k + n
        if 0 <= j <= h: return ev(g, tr, j)
        return o.endswith(':')
    if len(f) == 2:
        g = f[1]
        if op == '~': return not ev(g, tr, k)
        if op == '<': return k > 0 and ev(g, tr, k-1)
        if op == '<:': return k == 0 or ev(g, tr, k-1)
        if op == '>': return k < h and ev(g, tr, k+1)
        if op == '>:': return k == h or ev(g, tr, k+1)
        if op == '<?': return any(ev(g, tr, j) for j in range(0, k+1))
        if op == '<*': return all(ev(g, tr, j) for j in range(0, k+1))
        if op == '>?': return any(ev(g, tr, j) for j in range(k, h+1))
        if op == '>*': return all(ev(g, tr, j) for j in range(k, h+1))
        if op == '<<': return ev(g, tr, 0)
        if op == '>>': return ev(g, tr, h)
    a, b = f[1], f[2]
    if op == '&': return ev(a, tr, k) and ev(b, tr, k)
    if op == '|': return ev(a, tr, k) or ev(b, tr, k)
    if op == '->': return (not ev(a, tr, k)) or ev(b, tr, k)
    if op == '<-': return ev(a, tr, k) or not ev(b, tr, k)
    if op == '<>': return ev(a, tr, k) == ev(b, tr, k)
    if op == '>?': return any(ev(b, tr, j) and all(ev(a, tr, i) for i in range(k, j)) for j in range(k, h+1))
    if op == '>*': return all(ev(b, tr, j) or any(ev(a, tr, i) for i in range(k, j)) for j in range(k, h+1))
    if op == '<?': return any(ev(b, tr, j) and all(ev(a, tr, i) for i in range(j+1, k+1)) for j in range(0, k+1))
    if op == '<*': return all(ev(b, tr, j) or any(ev(a, tr, i) for i in range(j+1, k+1)) for j in range(0, k+1))
    if op == ';>': return ev(a, tr, k) and k < h and ev(b, tr, k+1)
    if op == ';>:': return ev(a, tr, k) and (k == h or ev(b, tr, k+1))
    if op == '<;': return (k > 0 and ev(a, tr, k-1)) and ev(b, tr, k)
    if op == '<:;': return (k == 0 or ev(a, tr, k-1)) and ev(b, tr, k)
    raise Exception(op)
