import sys, os
if os.environ.get("FIXED"): sys.path.insert(0, "/tmp/exp/repo2")
import sys, clingo, telingo
import telingo.transformers as tf
from clingo.ast import ProgramBuilder

def run(s, H=3, always=False, show_aux=False, dump=False):
    """return dict horizon -> sorted list of models"""
    res = {}
    prg = clingo.Control(['0'], message_limit=0)
    stm = []
    with ProgramBuilder(prg) as bld:
        def add(x):
            stm.append(str(x)); bld.add(x)
        fs, parts = tf.transform([("#program always. " if always else "") + s], add)
    if dump:
        print("\n".join(x for x in stm if not x.startswith("%") and not x.startswith("#theory"))); print(fs, parts)
    def om(m, step):
        syms = [str(x) for x in m.symbols(shown=True) if show_aux or not x.name.startswith("__")]
        res.setdefault(step, []).append(sorted(syms))
    telingo.imain(prg, fs, parts, om, imin=H+1, imax=H+1)
    return {k: sorted(v) for k, v in res.items()}

if __name__ == "__main__":
    r = run(sys.argv[1], int(sys.argv[2]) if len(sys.argv) > 2 else 2, dump=True)
    for k in sorted(r): print(k, r[k])
